#!/usr/bin/env python3
"""Systematic first-order mutants of waitress versus the checks.

Complements the hand-made changes in seeded/: every syntactic mutant of the
files below that (a) still compiles and (b) passes the repository's own test
suite is run against the quick checks that look at that file.  A surviving,
undetected mutant is either equivalent (no observable change in any property)
or a gap in the checks; the triage is recorded in mutants/TRIAGE.md.

  tools_mutate.py gen                 -> mutants/index.json
  tools_mutate.py filter [-j N]       -> mutants/tests.json   (which mutants the test suite lets through)
  tools_mutate.py check  [-j N]       -> mutants/checks.json  (which checks report the survivors)
  tools_mutate.py show <id>           print the mutated statement
  tools_mutate.py diff <id>           unified diff of the mutant
  tools_mutate.py table               -> mutants/RESULTS.md

Nothing is written to /repo: every worker owns a scratch git worktree outside
/repo and /verif, removed at the end.
"""
import ast
import copy
import difflib
import json
import multiprocessing as mp
import os
import shutil
import subprocess
import sys
import tempfile
import time

HERE = os.path.dirname(os.path.abspath(__file__))
REPO = "/repo"
PY = "/venv/bin/python"
OUT = os.path.join(HERE, "mutants")

# file -> (test files run first, checks in the order tried)
FILES = {
    "channel.py": (["tests/test_channel.py"], ["C13", "C18", "C05", "C03", "C09", "C12", "C19", "C04", "C11"]),
    "task.py": (["tests/test_task.py"], ["C09", "C03", "C07", "C16", "C14", "C08", "C04", "C11"]),
    "parser.py": (["tests/test_parser.py"], ["C10", "C07", "C03", "C06", "C01", "C02", "C19"]),
    "receiver.py": (["tests/test_receiver.py"], ["C10", "C06", "C01", "C02"]),
    "buffers.py": (["tests/test_buffers.py"], ["C17", "C03", "C07", "C12", "C04"]),
    "proxy_headers.py": (["tests/test_proxy_headers.py"], ["C16", "C15"]),
    "utilities.py": (["tests/test_utilities.py"], ["C10", "C03", "C06", "C01"]),
    "server.py": (["tests/test_server.py"], ["C20", "C15", "C13", "C18", "C07"]),
    "wasyncore.py": (["tests/test_wasyncore.py"], ["C13", "C18", "C05", "C04"]),
    "trigger.py": (["tests/test_trigger.py"], ["C13", "C05", "C04"]),
    "adjustments.py": (["tests/test_adjustments.py"], ["C20", "C15"]),
}

CMP = {ast.Lt: ast.LtE, ast.LtE: ast.Lt, ast.Gt: ast.GtE, ast.GtE: ast.Gt, ast.Eq: ast.NotEq, ast.NotEq: ast.Eq, ast.Is: ast.IsNot, ast.IsNot: ast.Is, ast.In: ast.NotIn, ast.NotIn: ast.In}


def stmts(tree):
    """simple statements and the headers of compound ones, with their parents"""
    for node in ast.walk(tree):
        for field in ("body", "orelse", "finalbody"):
            lst = getattr(node, field, None)
            if isinstance(lst, list):
                for i, s in enumerate(lst):
                    if isinstance(s, ast.stmt):
                        yield lst, i, s


def is_docstring(s):
    return isinstance(s, ast.Expr) and isinstance(s.value, ast.Constant) and isinstance(s.value.value, str)


def header_exprs(s):
    """expressions belonging to the statement itself (not to nested statements)"""
    if isinstance(s, (ast.If, ast.While)):
        return [("test", s.test)]
    if isinstance(s, ast.For):
        return [("iter", s.iter)]
    if isinstance(s, (ast.With,)):
        return []
    if isinstance(s, (ast.FunctionDef, ast.ClassDef, ast.Try, ast.AsyncFunctionDef)):
        return []
    if isinstance(s, ast.Return):
        return [("value", s.value)] if s.value is not None else []
    if isinstance(s, ast.Assign):
        return [("value", s.value)]
    if isinstance(s, ast.AugAssign):
        return [("value", s.value)]
    if isinstance(s, ast.Expr):
        return [("value", s.value)]
    if isinstance(s, ast.Raise):
        return []
    if isinstance(s, ast.Assert):
        return []
    return []


def expr_mutations(root):
    """yield (description, apply(copy_root)) for sub-expressions of root; apply works on a deep copy
    addressed by walk index"""
    nodes = list(ast.walk(root))
    for idx, n in enumerate(nodes):
        if isinstance(n, ast.Compare):
            for k, op in enumerate(n.ops):
                new = CMP.get(type(op))
                if new is not None:
                    yield (f"cmp {type(op).__name__}->{new.__name__}", idx, ("cmp", k, new))
        elif isinstance(n, ast.BoolOp):
            new = ast.Or if isinstance(n.op, ast.And) else ast.And
            yield (f"bool {type(n.op).__name__}->{new.__name__}", idx, ("boolop", new))
            if len(n.values) >= 2:
                for k in range(len(n.values)):
                    yield (f"bool drop operand {k}", idx, ("dropoperand", k))
        elif isinstance(n, ast.UnaryOp) and isinstance(n.op, ast.Not):
            yield ("drop not", idx, ("dropnot",))
        elif isinstance(n, ast.Constant):
            v = n.value
            if v is True or v is False:
                yield (f"const {v}->{not v}", idx, ("const", not v))
            elif isinstance(v, int) and abs(v) <= 100000:
                yield (f"const {v}->{v + 1}", idx, ("const", v + 1))
                if v != 0:
                    yield (f"const {v}->{v - 1}", idx, ("const", v - 1))
            elif isinstance(v, (str, bytes)) and 0 < len(v) <= 24:
                yield (f"const {v!r}->empty", idx, ("const", type(v)()))
        elif isinstance(n, ast.BinOp) and isinstance(n.op, (ast.Add, ast.Sub)):
            new = ast.Sub if isinstance(n.op, ast.Add) else ast.Add
            yield (f"arith {type(n.op).__name__}->{new.__name__}", idx, ("binop", new))
        elif isinstance(n, ast.Call) and isinstance(n.func, ast.Attribute) and n.func.attr in ("lower", "upper", "strip", "lstrip", "rstrip") and not n.args:
            yield (f"drop .{n.func.attr}()", idx, ("dropcall",))


def apply_expr(root, idx, how):
    nodes = list(ast.walk(root))
    n = nodes[idx]
    kind = how[0]
    if kind == "cmp":
        n.ops[how[1]] = how[2]()
    elif kind == "boolop":
        n.op = how[1]()
    elif kind == "dropoperand":
        vals = [v for k, v in enumerate(n.values) if k != how[1]]
        return replace_node(root, n, vals[0] if len(vals) == 1 else ast.BoolOp(op=n.op, values=vals))
    elif kind == "dropnot":
        return replace_node(root, n, n.operand)
    elif kind == "const":
        n.value = how[1]
    elif kind == "binop":
        n.op = how[1]()
    elif kind == "dropcall":
        return replace_node(root, n, n.func.value)
    return root


def replace_node(root, old, new):
    if root is old:
        return new

    class T(ast.NodeTransformer):
        def visit(self, node):
            if node is old:
                return new
            return self.generic_visit(node)

    return T().visit(root)


def gen_file(path):
    src = open(path).read()
    tree = ast.parse(src)
    lines = src.splitlines(keepends=True)
    muts = []

    def seg(s):
        return (s.lineno, s.col_offset, s.end_lineno, s.end_col_offset)

    def emit(s, new_stmt, desc):
        try:
            text = ast.unparse(ast.fix_missing_locations(new_stmt))
        except Exception:
            return
        muts.append({"line": s.lineno, "seg": seg(s), "desc": desc, "new": text})

    for lst, i, s in stmts(tree):
        if is_docstring(s):
            continue
        # statement deletion
        if isinstance(s, (ast.Expr, ast.Assign, ast.AugAssign, ast.Break, ast.Continue, ast.Raise, ast.Delete)):
            emit(s, ast.Pass(), "delete " + type(s).__name__.lower())
        if isinstance(s, ast.Return) and s.value is not None and not (isinstance(s.value, ast.Constant) and s.value.value is None):
            emit(s, ast.Return(value=None), "return None")
        if isinstance(s, ast.Continue):
            emit(s, ast.Break(), "continue->break")
        if isinstance(s, ast.Break):
            emit(s, ast.Continue(), "break->continue")
        # condition negation / forcing for compound headers: only the header is rewritten
        if isinstance(s, (ast.If, ast.While)):
            hdr_end = s.test
            for desc, newtest in (("negate condition", ast.UnaryOp(op=ast.Not(), operand=copy.deepcopy(s.test))), ("condition->True", ast.Constant(True)), ("condition->False", ast.Constant(False))):
                if isinstance(s, ast.While) and desc == "condition->True":
                    continue
                muts.append({"line": s.lineno, "seg": seg(s.test), "desc": desc, "new": "(" + ast.unparse(newtest) + ")"})
            for desc, idx, how in expr_mutations(s.test):
                t2 = apply_expr(copy.deepcopy(s.test), idx, how)
                muts.append({"line": s.lineno, "seg": seg(s.test), "desc": desc, "new": "(" + ast.unparse(ast.fix_missing_locations(t2)) + ")"})
            continue
        if isinstance(s, ast.For):
            for desc, idx, how in expr_mutations(s.iter):
                t2 = apply_expr(copy.deepcopy(s.iter), idx, how)
                muts.append({"line": s.lineno, "seg": seg(s.iter), "desc": desc, "new": "(" + ast.unparse(ast.fix_missing_locations(t2)) + ")"})
            continue
        for fname, e in header_exprs(s):
            if e is None:
                continue
            for desc, idx, how in expr_mutations(e):
                e2 = apply_expr(copy.deepcopy(e), idx, how)
                muts.append({"line": e.lineno, "seg": seg(e), "desc": desc, "new": "(" + ast.unparse(ast.fix_missing_locations(e2)) + ")"})
    # except-handler bodies and with-bodies are statements too (covered by stmts()); handlers:
    for node in ast.walk(tree):
        if isinstance(node, ast.Try):
            for h in node.handlers:
                for i, s in enumerate(h.body):
                    if is_docstring(s):
                        continue
                    if isinstance(s, (ast.Expr, ast.Assign, ast.AugAssign, ast.Raise)):
                        emit(s, ast.Pass(), "delete " + type(s).__name__.lower() + " (handler)")
                    for fname, e in header_exprs(s):
                        if e is None:
                            continue
                        for desc, idx, how in expr_mutations(e):
                            e2 = apply_expr(copy.deepcopy(e), idx, how)
                            muts.append({"line": e.lineno, "seg": seg(e), "desc": desc + " (handler)", "new": "(" + ast.unparse(ast.fix_missing_locations(e2)) + ")"})
                    if isinstance(s, (ast.If, ast.While)):
                        muts.append({"line": s.lineno, "seg": seg(s.test), "desc": "negate condition (handler)", "new": "(not (" + ast.unparse(s.test) + "))"})
    # de-duplicate, drop no-ops, keep only mutants that compile
    out = []
    seen = set()
    for m in muts:
        key = (tuple(m["seg"]), m["new"])
        if key in seen:
            continue
        seen.add(key)
        new_src = mutate_source(lines, m)
        if new_src == src:
            continue
        try:
            compile(new_src, path, "exec")
        except SyntaxError:
            continue
        out.append(m)
    return out


def mutate_source(lines, m):
    l1, c1, l2, c2 = m["seg"]
    # columns are utf-8 byte offsets
    first = lines[l1 - 1].encode("utf-8")
    last = lines[l2 - 1].encode("utf-8")
    indent = " " * c1
    new = m["new"].replace("\n", "\n" + indent)
    mid = first[:c1].decode("utf-8") + new + last[c2:].decode("utf-8")
    return "".join(lines[: l1 - 1]) + mid + "".join(lines[l2:])


def cmd_gen():
    os.makedirs(OUT, exist_ok=True)
    index = []
    for f in FILES:
        path = os.path.join(REPO, "src/waitress", f)
        ms = gen_file(path)
        for m in ms:
            m["file"] = f
            m["id"] = f"{f[:-3]}:{m['line']}:{len(index)}"
            index.append(m)
        print(f, len(ms))
    head = subprocess.check_output(["git", "-C", REPO, "rev-parse", "--short", "HEAD"], text=True).strip()
    json.dump({"repo_commit": head, "mutants": index}, open(os.path.join(OUT, "index.json"), "w"), indent=0)
    print(len(index), "mutants at", head)


# ---------------------------------------------------------------------------
_wt = {}


def worker_wt():
    if "wt" not in _wt:
        d = tempfile.mkdtemp(prefix="mutwt-")
        wt = os.path.join(d, "wt")
        subprocess.check_call(["git", "-C", REPO, "worktree", "add", "-q", "--detach", wt, "HEAD"])
        _wt["d"], _wt["wt"] = d, wt
    return _wt["wt"]


def drop_wt(_=None):
    if "wt" in _wt:
        subprocess.call(["git", "-C", REPO, "worktree", "remove", "--force", _wt["wt"]])
        shutil.rmtree(_wt["d"], ignore_errors=True)
        _wt.clear()
    return True


def install(wt, m):
    path = os.path.join(wt, "src/waitress", m["file"])
    orig = open(os.path.join(REPO, "src/waitress", m["file"])).read()
    new = mutate_source(orig.splitlines(keepends=True), m)
    open(path, "w").write(new)
    return path, orig


def pytest(wt, args, timeout):
    env = dict(os.environ, PYTHONPATH=os.path.join(wt, "src"), PYTHONDONTWRITEBYTECODE="1")
    try:
        p = subprocess.run([PY, "-m", "pytest", "-q", "-p", "no:cacheprovider", "-x", "--no-cov", "--timeout=120"] + args, cwd=wt, env=env, capture_output=True, text=True, timeout=timeout)
        return p.returncode
    except subprocess.TimeoutExpired:
        return 99


def _filter_one(m):
    wt = worker_wt()
    path, orig = install(wt, m)
    try:
        first, _ = FILES[m["file"]]
        rc = pytest(wt, first, 300)
        stage = "own"
        if rc == 0:
            rc = pytest(wt, [], 900)
            stage = "full"
        return m["id"], {"rc": rc, "stage": stage}
    finally:
        open(path, "w").write(orig)


def load(name, default):
    p = os.path.join(OUT, name)
    return json.load(open(p)) if os.path.exists(p) else default


def cmd_filter(jobs):
    idx = load("index.json", None)["mutants"]
    res = load("tests.json", {})
    todo = [m for m in idx if m["id"] not in res]
    print(len(todo), "to run,", len(res), "done")
    t0 = time.time()
    with mp.get_context("fork").Pool(jobs) as pool:
        try:
            for k, (mid, r) in enumerate(pool.imap_unordered(_filter_one, todo)):
                res[mid] = r
                if k % 50 == 0:
                    json.dump(res, open(os.path.join(OUT, "tests.json"), "w"))
                    surv = sum(1 for v in res.values() if v["rc"] == 0)
                    print(f"{k}/{len(todo)} survivors so far {surv} ({time.time() - t0:.0f}s)", flush=True)
        finally:
            json.dump(res, open(os.path.join(OUT, "tests.json"), "w"))
            pool.map(drop_wt, range(jobs * 4))
    subprocess.call(["git", "-C", REPO, "worktree", "prune"])
    print("survivors:", sum(1 for v in res.values() if v["rc"] == 0), "of", len(res))


def run_check(wt, c, jobs):
    env = dict(os.environ, VERIF_REPO=wt, VERIF_JOBS=str(jobs), VERIF_EVIDENCE_DIR=os.path.join(_wt["d"], "ev"), VERIF_REPLAY_DIR=os.path.join(_wt["d"], "rp"))
    t0 = time.time()
    try:
        p = subprocess.run([os.path.join(HERE, "check"), c, "--tier", "quick"], cwd=HERE, env=env, capture_output=True, text=True, timeout=1500)
        rc, out = p.returncode, p.stdout
    except subprocess.TimeoutExpired:
        rc, out = 98, ""
    keys = []
    for ln in out.splitlines():
        s = ln.strip()
        if s.startswith("[") and "]" in s:
            keys.append(s[1 : s.index("]")])
    return rc, keys[:4], round(time.time() - t0, 1)


CHEAP = {"C03", "C05", "C07", "C09", "C10", "C13", "C15", "C16", "C17", "C18", "C20"}

# the expensive checks tried for a survivor that the cheap ones do not report: by file and line range
# (first matching range; the ranges follow the functions of the pinned source)
HEAVY = {
    "channel.py": [((178, 260), ["C19", "C11", "C04"]), ((261, 440), ["C12", "C04", "C11"]), ((441, 546), ["C11", "C19", "C04", "C12"]), ((0, 9999), ["C12", "C04", "C11", "C19"])],
    "task.py": [((0, 141), ["C14"]), ((142, 9999), ["C08", "C04", "C11", "C01"])],
    "parser.py": [((0, 9999), ["C06", "C01"])],
    "receiver.py": [((0, 9999), ["C06", "C01"])],
    "utilities.py": [((200, 240), ["C16"]), ((253, 9999), ["C06", "C01"]), ((0, 9999), [])],
    "buffers.py": [((0, 9999), ["C12", "C04"])],
    "wasyncore.py": [((0, 9999), ["C04"])],
    "trigger.py": [((0, 9999), ["C04"])],
}


def checks_for(m, cheap):
    base = FILES[m["file"]][1]
    if cheap:
        return [c for c in base if c in CHEAP]
    out = [c for c in base if c in CHEAP]
    for (lo, hi), lst in HEAVY.get(m["file"], []):
        if lo <= m["line"] <= hi:
            out += lst
            break
    return out


def _check_one(arg):
    m, jobs, todo = arg
    wt = worker_wt()
    path, orig = install(wt, m)
    tried = {}
    try:
        for c in todo:
            rc, keys, wall = run_check(wt, c, jobs)
            tried[c] = {"exit": rc, "keys": keys, "wall_s": wall}
            if rc != 0:
                break
        return m["id"], tried
    finally:
        open(path, "w").write(orig)


def cmd_check(jobs, only=None, cheap=False, ids=None, redo=None, skip_triaged=True, only_checks=None, par=None):
    """cheap pass: only the checks that take seconds; full pass: the remaining ones for mutants still silent"""
    idx = {m["id"]: m for m in load("index.json", None)["mutants"]}
    tests = load("tests.json", {})
    res = load("checks.json", {})
    triage = load("triage.json", {})
    work = []
    for i, r in tests.items():
        if r["rc"] != 0 or i not in idx or (only is not None and idx[i]["file"] not in only) or (ids is not None and i not in ids):
            continue
        done = res.get(i, {})
        if any(x["exit"] == 1 for x in done.values()):
            continue
        if redo:
            done = {c: x for c, x in done.items() if c not in redo}
        todo = [c for c in (only_checks or checks_for(idx[i], cheap)) if c not in done]
        if skip_triaged and i in triage and not redo and not ids:
            continue
        if todo:
            work.append((idx[i], 4, todo))
    print(len(work), "survivors to check,", len(res), "have results")
    if par is None:
        par = max(1, jobs // 4) if not cheap else jobs // 2
    per = max(1, jobs // par)
    work = [(m, per, todo) for m, _, todo in work]
    t0 = time.time()
    with mp.get_context("fork").Pool(par) as pool:
        try:
            for k, (mid, r) in enumerate(pool.imap_unordered(_check_one, work)):
                res.setdefault(mid, {}).update(r)
                json.dump(res, open(os.path.join(OUT, "checks.json"), "w"))
                det = [c for c, x in r.items() if x["exit"] == 1]
                print(f"{k + 1}/{len(work)} {mid} {idx[mid]['desc']!r}: {'DETECTED ' + det[0] if det else 'silent'} ({time.time() - t0:.0f}s)", flush=True)
        finally:
            pool.map(drop_wt, range(par * 4))
    subprocess.call(["git", "-C", REPO, "worktree", "prune"])


def find(mid):
    for m in load("index.json", None)["mutants"]:
        if m["id"] == mid or m["id"].endswith(":" + mid):
            return m
    raise SystemExit("no such mutant")


def cmd_diff(mid):
    m = find(mid)
    orig = open(os.path.join(REPO, "src/waitress", m["file"])).read()
    new = mutate_source(orig.splitlines(keepends=True), m)
    sys.stdout.writelines(difflib.unified_diff(orig.splitlines(keepends=True), new.splitlines(keepends=True), "a/src/waitress/" + m["file"], "b/src/waitress/" + m["file"]))


def cmd_table():
    idx = load("index.json", None)
    tests = load("tests.json", {})
    checks = load("checks.json", {})
    triage = load("triage.json", {})
    byfile = {}
    for m in idx["mutants"]:
        d = byfile.setdefault(m["file"], {"n": 0, "killed": 0, "surv": 0, "det": 0, "silent": 0, "pending": 0})
        d["n"] += 1
        t = tests.get(m["id"])
        if t is None:
            continue
        if t["rc"] != 0:
            d["killed"] += 1
            continue
        d["surv"] += 1
        c = checks.get(m["id"])
        if c is None:
            d["pending"] += 1
        elif any(x["exit"] == 1 for x in c.values()):
            d["det"] += 1
        elif m["id"] not in triage and any(ck not in c for ck in checks_for(m, False)):
            d["pending"] += 1
        else:
            d["silent"] += 1
    with open(os.path.join(OUT, "RESULTS.md"), "w") as f:
        f.write(f"# First-order mutants (repo commit {idx['repo_commit']})\n\n| file | mutants | killed by the repository's tests | pass the tests | reported by a check | silent | not run |\n|---|---|---|---|---|---|---|\n")
        for k, d in byfile.items():
            f.write(f"| {k} | {d['n']} | {d['killed']} | {d['surv']} | {d['det']} | {d['silent']} | {d['pending']} |\n")
        f.write("\n## Silent survivors\n\n| id | change | triage |\n|---|---|---|\n")
        for m in idx["mutants"]:
            c = checks.get(m["id"])
            if c is not None and not any(x["exit"] == 1 for x in c.values()):
                f.write(f"| {m['id']} | {m['desc']}: `{m['new'][:80]}` | {triage.get(m['id'], '')} |\n".replace("\n`", "`"))
    print(json.dumps(byfile, indent=1))


if __name__ == "__main__":
    cmd = sys.argv[1]
    jobs = 16
    if "-j" in sys.argv:
        jobs = int(sys.argv[sys.argv.index("-j") + 1])
    if cmd == "gen":
        cmd_gen()
    elif cmd == "filter":
        cmd_filter(jobs)
    elif cmd == "check":
        only = None
        if "--files" in sys.argv:
            only = sys.argv[sys.argv.index("--files") + 1].split(",")
        ids = None
        if "--ids" in sys.argv:
            ids = set(sys.argv[sys.argv.index("--ids") + 1].split(","))
        redo = None
        if "--redo" in sys.argv:
            redo = set(sys.argv[sys.argv.index("--redo") + 1].split(","))
        oc = sys.argv[sys.argv.index("--only-checks") + 1].split(",") if "--only-checks" in sys.argv else None
        par = int(sys.argv[sys.argv.index("--par") + 1]) if "--par" in sys.argv else None
        cmd_check(jobs, only, cheap="--cheap" in sys.argv, ids=ids, redo=redo, only_checks=oc, par=par)
    elif cmd == "try":
        # run some checks on one mutant without recording anything
        m = find(sys.argv[2])
        wt = worker_wt()
        path, orig = install(wt, m)
        try:
            for c in sys.argv[3].split(","):
                print(c, run_check(wt, c, jobs))
        finally:
            drop_wt()
    elif cmd == "show":
        m = find(sys.argv[2])
        print(m["file"], m["line"], m["desc"])
        print(m["new"])
    elif cmd == "diff":
        cmd_diff(sys.argv[2])
    elif cmd == "table":
        cmd_table()
