"""Comparison of what waitress did with a byte stream against the reference
reading of the same stream (mc.refhttp).  Used by C01, C02, C06, C19."""
from . import refhttp

ERR_CODES = (400, 413, 431, 501)
SENTINEL = b"GET /sentinel HTTP/1.1\r\nHost: s\r\n\r\n"


def expected_headers(msg):
    """CGI-style header map the application must see for a strictly valid
    message (names with '_' are dropped by documented policy)."""
    h = {}
    for name, val in msg.fields:
        if b"_" in name:
            continue
        key = name.upper().replace(b"-", b"_").decode("latin-1")
        v = val.decode("latin-1")
        if key in h:
            h[key] += ", " + v
        else:
            h[key] = v
    if msg.version == b"1.1":
        h.pop("TRANSFER_ENCODING", None)
    if msg.framing == "chunked":
        h["CONTENT_LENGTH"] = str(len(msg.body))
    out = {}
    for k, v in h.items():
        if k in ("CONTENT_LENGTH", "CONTENT_TYPE"):
            out[k] = v
        else:
            out["HTTP_" + k] = v
    return out


def call_matches(call, msg, strict_headers=True):
    """call = apps.digest tuple.  Returns None if it is the delivery of msg,
    else a description of the difference."""
    method, uri, proto, hdrs, body = call
    if body != msg.body:
        return f"body {body[:60]!r} != {msg.body[:60]!r}"
    if uri != msg.target.decode("latin-1"):
        return f"target {uri!r} != {msg.target!r}"
    if method != msg.method.decode("latin-1").upper():
        return f"method {method!r} != {msg.method!r}"
    got = dict(hdrs)
    if msg.framing != "none":
        want_cl = str(len(msg.body)) if msg.framing == "chunked" else None
        if want_cl is not None and got.get("CONTENT_LENGTH") != want_cl:
            return f"CONTENT_LENGTH {got.get('CONTENT_LENGTH')!r} != {want_cl!r}"
        if msg.framing == "length" and int(got.get("CONTENT_LENGTH", "-1")) != len(msg.body):
            return f"CONTENT_LENGTH {got.get('CONTENT_LENGTH')!r} but body has {len(msg.body)} bytes"
    if strict_headers and not msg.either:
        want = expected_headers(msg)
        if got != want:
            return f"headers {got} != {want}"
    return None


class Observed:
    """What the server did with one connection."""

    def __init__(self, calls, wire, closed, escaped=(), worker_exc=()):
        self.calls = list(calls)
        self.wire = bytes(wire)
        self.closed = closed
        self.escaped = list(escaped)
        self.worker_exc = list(worker_exc)


def judge(stream, obs, max_header=None, max_body=None, complete=True, lookahead=0):
    """Compare.  Returns list of (key, what).  complete=False: the stream may
    still grow (only safety is judged)."""
    v = []
    for e in obs.escaped:
        v.append((f"escaped:{e[1]}", f"exception escaped an event handler: {e}"))
    for e in obs.worker_exc:
        v.append((f"worker-exc:{type(e).__name__}", f"exception reached the worker loop: {e!r}"))
    evs = refhttp.parse_requests(stream, max_header, max_body)
    calls = obs.calls
    ci = 0
    verdict = "end"
    for ev in evs:
        if isinstance(ev, refhttp.Msg):
            diff = call_matches(calls[ci], ev) if ci < len(calls) else "not delivered"
            if diff is None:
                ci += 1
                if ev.must_close or ev.conn_close:
                    if len(calls) > ci:
                        v.append((f"served-after-{_whykey(ev)}", f"{len(calls) - ci} request(s) executed after message {ci} which requires closing ({_why(ev)}): next={calls[ci][:2]}"))
                    verdict = "closed"
                    break
                continue
            if ev.either and len(calls) == ci:
                verdict = "refused-either"
                break
            if ci < len(calls):
                v.append(("delivered-differently", f"message {ci}: {diff}; reference {ev!r}"))
            elif complete or _has_error(obs):
                v.append(("not-delivered", f"message {ci} {ev!r} was not delivered"))
            verdict = "mismatch"
            break
        elif isinstance(ev, refhttp.Reject):
            verdict = "reject"
            if len(calls) > ci:
                v.append((f"delivered-malformed:{ev.reason}", f"reference rejects ({ev.reason}) but application saw {calls[ci][:2]} body={calls[ci][4][:40]!r}"))
            break
        else:
            verdict = "need-either" if ev.either else "need"
            if len(calls) > ci:
                v.append(("delivered-incomplete", f"reference needs more data ({ev.what}) but application saw {calls[ci][:2]} body={calls[ci][4][:40]!r}"))
            break
    else:
        if len(calls) > ci:
            v.append(("extra-call", f"application saw {len(calls) - ci} request(s) beyond the messages in the stream: {calls[ci][:2]}"))
    # -- responses on the wire ------------------------------------------------
    methods = [c[0].encode("latin-1") for c in calls] + [b"GET"]
    try:
        resps = refhttp.parse_responses(obs.wire, methods, closed=obs.closed)
    except refhttp.WireError as e:
        v.append(("wire-unparseable", str(e)))
        return v
    finals = [r for r in resps if r.status >= 200]
    errs = [r for r in finals[len(calls) :]]
    if len(finals) > len(calls) + 1:
        v.append(("too-many-responses", f"{len(finals)} final responses for {len(calls)} executed requests"))
    for r in finals[: len(calls)]:
        if r.status != 200:
            v.append(("unexpected-status", f"executed request answered with {r.status}"))
    if verdict == "reject" and complete and not v:
        if not errs:
            v.append((f"no-error-response:{evs[-1].reason}", f"malformed message ({evs[-1].reason}) got no error response; closed={obs.closed} wire tail={obs.wire[-80:]!r}"))
        elif errs[0].status not in ERR_CODES:
            v.append(("wrong-error-status", f"malformed message answered with {errs[0].status}"))
        elif not obs.closed:
            v.append(("not-closed-after-error", "connection still open after the error response"))
    if verdict == "closed" and complete and not v:
        last = evs[ci - 1]
        if errs:
            v.append((f"continued-after-{_whykey(last)}", f"input after a message that requires closing ({_why(last)}) was parsed and answered with {errs[0].status}"))
        elif not obs.closed:
            v.append((f"not-closed-after-{_whykey(last)}", f"connection still open after a message that requires closing ({_why(last)})"))
    if errs and verdict in ("end", "need") and not v:
        v.append(("spurious-error", f"error response {errs[0].status} although the reference accepts the stream ({verdict}); body={errs[0].body[:80]!r}"))
    if errs and not obs.closed:
        v.append(("not-closed-after-error", "connection still open after an error response"))
    return v


def _why(ev):
    if ev.must_close:
        return "Content-Length with Transfer-Encoding" if ev.framing == "chunked" else "Transfer-Encoding on a non-HTTP/1.1 request"
    return "Connection: close / HTTP/1.0 without keep-alive"


def _whykey(ev):
    if ev.must_close:
        return "must-close:cl+te" if ev.framing == "chunked" else "must-close:te-on-non-1.1"
    return "conn-close"


def _has_error(obs):
    return b" 400 " in obs.wire or b" 413 " in obs.wire or b" 431 " in obs.wire or b" 501 " in obs.wire
