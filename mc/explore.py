"""Deviation-bounded exhaustive exploration of a scenario under ThreadSched.

An *execution* is identified by its choice map {branch point index: chosen
alternative}; every branch point not in the map takes alternative 0 (keep
running the current thread / accept all bytes / no fault / environment event
as late as possible).  Each alternative carries a cost (a pre-emption, a short
send, an injected fault, an early environment event: 1; a switch forced by
blocking: 0).  `explore()` enumerates *every* execution whose total cost is
within the bound, depth first, partitioned over worker processes.
"""
import gc
import importlib
import multiprocessing as mp
import os
import random
import time
import traceback

from . import common, sched, venv


class Scenario:
    name = "?"
    horizon = 6000
    collect_states = True

    def __init__(self, **params):
        self.params = params

    def ident(self):
        return {"module": type(self).__module__, "cls": type(self).__name__, "params": self.params}

    def monitored(self):
        """code objects whose lines are scheduling points"""
        return set()

    def configure(self, S):
        pass

    def build(self, S, W):
        raise NotImplementedError

    def oracle(self, ctx, S, W, reason):
        return []

    def outcome(self, ctx, S, W):
        return None

    def cleanup(self, ctx):
        pass


def load_scenario(ident):
    mod = importlib.import_module(ident["module"])
    return getattr(mod, ident["cls"])(**ident["params"])


class Result:
    __slots__ = ("bpoints", "taken", "viol", "obs", "steps", "trace_hash", "reason", "states", "fatal", "vis", "log", "events")


def run_once(scn, choices=None, expect=None, keep_trace=False):
    venv.install()
    S = sched.ThreadSched(choices, horizon=scn.horizon, collect_states=scn.collect_states)
    if expect:
        S.expect = dict(expect)
    S.keep_trace = keep_trace
    W = venv.World(S)
    venv.set_world(W)
    sched.monitor(scn.monitored())
    ctx = None
    r = Result()
    try:
        scn.configure(S)
        ctx = scn.build(S, W)
        reason = S.run()
        viol = []
        if reason == "horizon":
            viol.append(("harness:horizon", f"step horizon {scn.horizon} exceeded"))
        for name, op, who in W.blocked[:1]:
            viol.append((f"blocking-call:{op}", f"{who} called {op} on {name}, which was left in blocking mode, when the call could not complete at once ({len(W.blocked)} such calls)"))
        if S.fatal:
            viol.append(("harness:fatal", S.fatal))
        viol += list(scn.oracle(ctx, S, W, reason))
        r.obs = scn.outcome(ctx, S, W)
        r.reason = reason
        r.viol = viol
    finally:
        try:
            S.teardown()
        finally:
            try:
                if ctx is not None:
                    scn.cleanup(ctx)
            finally:
                venv.set_world(None)
    r.bpoints = S.bpoints
    r.taken = S.taken
    r.steps = S.steps
    r.trace_hash = S.trace_hash
    r.states = S.states
    r.fatal = S.fatal
    r.vis = S.vis
    r.log = W.log
    r.events = W.events
    del ctx
    gc.collect()
    return r


# ---------------------------------------------------------------------------
_w = {}


def _winit():
    venv.install()


def _setup(job):
    jid, ident, bound, deadline = job
    if _w.get("jid") != jid:
        _w["jid"] = jid
        _w["scn"] = load_scenario(ident)
        _w["bound"] = bound
        _w["seen"] = set()
        _w["deadline"] = deadline


_POOL = None
_JOB = [0]


def pool(jobs=None):
    """One worker pool per check process, shared by all scenarios."""
    global _POOL
    if _POOL is None:
        ctx = mp.get_context("fork")
        _POOL = ctx.Pool(jobs or common.NPROC, initializer=_winit)
    return _POOL


def _item(arg):
    """Explore one choice map; recurse locally into children that have used
    up the budget (only free alternatives remain below them)."""
    job, item = arg
    _setup(job)
    scn, bound = _w["scn"], _w["bound"]
    out = {"execs": 0, "steps": 0, "new_states": [], "hashes": [], "obs": {}, "viol": [], "children": [], "bp": 0, "samples": [], "capped": False}
    stack = [item]
    deadline = _w["deadline"]
    while stack:
        if deadline and time.time() > deadline:
            out["capped"] = True
            break
        choices, expect, spent = stack.pop()
        cd = dict(choices)
        try:
            r = run_once(scn, cd, dict(expect))
        except Exception:
            out["viol"].append(("harness:exception", traceback.format_exc(), {"choices": choices, "expect": expect}))
            continue
        out["execs"] += 1
        out["steps"] += r.steps
        out["bp"] += len(r.bpoints)
        seen = _w["seen"]
        for h in r.states:
            if h not in seen:
                seen.add(h)
                out["new_states"].append(h)
        if spent > 0:
            out["hashes"].append(r.trace_hash)
        out["obs"][repr(r.obs)] = out["obs"].get(repr(r.obs), 0) + 1
        if len(out["samples"]) < 2:
            out["samples"].append({"choices": [[i, a, list(r.bpoints[i][2])] for i, a in choices], "steps": r.steps, "end": r.reason, "outcome": repr(r.obs)[:300]})
        for key, what in r.viol:
            out["viol"].append((key, what, {"choices": choices, "expect": expect}))
        last = choices[-1][0] if choices else -1
        for i in range(last + 1, len(r.bpoints)):
            kind, costs, sig = r.bpoints[i]
            for a in range(1, len(costs)):
                c = spent + costs[a]
                if c > bound:
                    continue
                child = (choices + ((i, a),), expect + ((i, sig),), c)
                out["children"].append(child)
    return out


def explore(scn, bound, run=None, part=None, time_cap=None, jobs=None, verify_viol=True, prefix_keys=True):
    """Exhaustively explore `scn` up to total deviation cost `bound`.
    Returns a summary dict; reports violations through run.violation()."""
    ident = scn.ident()
    jobs = jobs or common.NPROC
    t0 = time.time()
    rnd = random.Random(common.SEED)
    summary = {"execs": 0, "steps": 0, "states": set(), "hashes": set(), "obs": {}, "viol": [], "bp": 0, "capped": False, "samples": [], "bound": bound}
    deadline = (t0 + time_cap) if time_cap else None
    _JOB[0] += 1
    job = (_JOB[0], ident, bound, deadline)
    pl = pool(jobs)
    if True:
        frontier = [((), (), 0)]
        while frontier:
            rnd.shuffle(frontier)
            nxt = []
            chunk = 1 if len(frontier) < jobs * 8 else min(16, len(frontier) // (jobs * 4))
            for out in pl.imap_unordered(_item, [(job, f) for f in frontier], chunksize=chunk):
                summary["execs"] += out["execs"]
                summary["steps"] += out["steps"]
                summary["bp"] += out["bp"]
                summary["states"].update(out["new_states"])
                summary["hashes"].update(out["hashes"])
                for k, v in out["obs"].items():
                    summary["obs"][k] = summary["obs"].get(k, 0) + v
                summary["viol"].extend(out["viol"])
                if len(summary["samples"]) < 4:
                    summary["samples"].extend(out["samples"][:1])
                nxt.extend(out["children"])
                if out["capped"]:
                    summary["capped"] = True
                if time_cap and time.time() - t0 > time_cap:
                    summary["capped"] = True
                    nxt = []
            frontier = nxt
    summary["wall"] = time.time() - t0
    # group violations by key, verify determinism of the first of each key
    bykey = {}
    for key, what, rep in summary["viol"]:
        bykey.setdefault(key, []).append((what, rep))
    summary["viol_keys"] = {k: len(v) for k, v in bykey.items()}
    if run is not None:
        name = part or scn.name
        run.add(
            states=len(summary["states"]),
            transitions=summary["steps"],
            traces_validated_against_impl=summary["execs"],
            evaluations=summary["execs"],
            distinct_nontrivial=len(summary["hashes"]),
        )
        run.part(
            name,
            executions=summary["execs"],
            steps=summary["steps"],
            states=len(summary["states"]),
            branch_points=summary["bp"],
            bound_completed=bound if not summary["capped"] else f"{bound} (capped by time)",
            distinct_outcomes=len(summary["obs"]),
            distinct_orderings_with_deviation=len(summary["hashes"]),
            wall_s=round(summary["wall"], 1),
        )
        if summary["capped"]:
            run.cap(f"{name}: time cap {time_cap}s hit at bound {bound}")
        for s in summary["samples"][:2]:
            run.sample({"scenario": name, **s})
        for key, lst in sorted(bykey.items()):
            # shortest choice list first
            lst.sort(key=lambda x: len(x[1]["choices"]))
            what, rep = lst[0]
            rep = {"scenario": ident, "choices": [list(c) for c in rep["choices"]], "expect": [[i, list(s)] for i, s in rep["expect"]]}
            if verify_viol and not key.startswith("harness:"):
                ok = _verify(scn, rep, key)
                if not ok:
                    key, what = "harness:nondeterministic", f"violation {key} did not replay identically: {what}"
            run.violation(f"{name}:{key}" if (prefix_keys and not key.startswith("harness:")) else key, f"[{name}] {what} [{len(lst)} executions]", rep)
    return summary


def _verify(scn, rep, key):
    """Replay twice in a fresh process; the same violation and the same
    observations must come out both times."""
    ctx = mp.get_context("fork")
    with ctx.Pool(1) as pool:
        res = [pool.apply(_replay_worker, (rep,)) for _ in range(2)]
    return res[0] == res[1] and key in res[0][0]


def _replay_worker(rep):
    venv.install()
    scn = load_scenario(rep["scenario"])
    r = run_once(scn, {i: a for i, a in rep["choices"]}, {i: tuple(s) for i, s in rep["expect"]})
    return (sorted(k for k, _ in r.viol), repr(r.obs), r.trace_hash)


def replay(rep, verbose=True):
    """Re-run one recorded execution without any search."""
    venv.install()
    scn = load_scenario(rep["scenario"])
    r = run_once(scn, {i: a for i, a in rep["choices"]}, {i: tuple(s) for i, s in rep["expect"]}, keep_trace=True)
    if verbose:
        print("scenario:", rep["scenario"])
        print("choices:", rep["choices"])
        print("end:", r.reason, "steps:", r.steps)
        print("outcome:", r.obs)
        for k, w in r.viol:
            print("VIOLATION-DETAIL", k, w)
    return r
