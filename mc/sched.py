"""Schedulers.

SeqSched     single-threaded driver: nothing blocks, no choices.
ThreadSched  E1: real OS threads, exactly one running at a time (baton =
             per-thread semaphore); every virtual synchronisation / socket /
             pipe / select operation and every source line of the monitored
             code objects is a scheduling point.  All nondeterminism (which
             thread runs, how many bytes a send accepts, whether a fault is
             injected, when the next environment event fires) is resolved by
             `_decide`, from a recorded choice map, default alternative 0.
"""
import gc
import sys
import threading
from . import venv

mon = sys.monitoring
TOOL = 3


class SchedAbort(BaseException):
    pass


class ReplayDivergence(Exception):
    pass


class _Main:
    idx = -1
    name = "main"


MAIN = _Main()


class SeqSched:
    """No concurrency: every operation is executed at once."""

    world = None

    def __init__(self):
        self.faults = {}  # (sock name, op) -> list of errno|None per call
        self.send_plan = None  # callable(sock, n) -> n'

    def point(self, kind, obj=None):
        pass

    def note(self, kind, obj=None):
        pass

    def me(self):
        return MAIN

    def me_name(self):
        return getattr(self, "acting_as", "main")

    def fault(self, sock, op):
        lst = self.faults.get((sock.name, op))
        if lst:
            return lst.pop(0)
        return None

    def send_size(self, sock, n):
        if self.send_plan is not None:
            return self.send_plan(sock, n)
        return n

    def block_until(self, pred, kind, obj=None, timeout=None, reacquire=False):
        if pred():
            return True
        if timeout is not None:
            self.world.now += timeout
            return False
        raise venv.SeqBlocked(kind)

    def wait_ready(self, scan, timeout, desc):
        return scan() or None

    def sleep(self, t):
        self.world.now += t

    def spawn(self, target, args, name):
        raise RuntimeError("thread start under the sequential driver")


# ---------------------------------------------------------------------------
class VT:
    __slots__ = (
        "idx", "name", "target", "args", "sem", "state", "pred", "deadline", "timed_out",
        "thread", "pos", "after_line", "bkind", "last_sel", "exc", "steps",
    )

    def __init__(self, idx, name, target, args):
        self.idx, self.name, self.target, self.args = idx, name, target, args
        self.sem = threading.Semaphore(0)
        self.state = "new"
        self.pred = None
        self.deadline = None
        self.timed_out = False
        self.thread = None
        self.pos = None
        self.after_line = False
        self.bkind = None
        self.last_sel = None
        self.exc = None
        self.steps = 0

    def __repr__(self):
        return f"<VT {self.name} {self.state}>"


OBSERVING = frozenset(
    ["select", "sock.recv", "sock.send", "sock.accept", "sock.getsockopt", "sock.setsockopt",
     "sock.setblocking", "sock.close", "time"]
)


class ThreadSched:
    def __init__(self, choices=None, horizon=20000, dedupe=True, collect_states=True):
        self.world = None
        self.choices = dict(choices or {})
        self.expect = {}  # bpoint index -> expected signature (replay divergence check)
        self.horizon = horizon
        self.dedupe = dedupe
        self.collect_states = collect_states
        self.threads = []
        self.by_ident = {}
        self.cur = None
        self.ctrl = threading.Semaphore(0)
        self.aborting = False
        self.started = False
        self.end_reason = None
        self.steps = 0
        self.switches = 0
        self.bpoints = []  # (kind, costs tuple, signature)
        self.taken = []
        self.trace_hash = 0
        self.states = set()
        self.fp = None  # scenario-provided: () -> hashable
        # environment
        self.env_events = []  # list of (guard, action, label)
        self.env_pos = 0
        self.env_cost = 1
        self.send_alts = None  # e.g. ("all", "one", "zero")
        self.fault_sites = None  # callable(sock, op, nth) -> bool
        self.fault_menu = ()
        self.max_faults = 0
        self.nfaults = 0
        self.free_switch_cost = 1
        self.crashed = []
        self.fatal = None
        self.vis = []  # visible-operation trace (only kept when keep_trace)
        self.keep_trace = False

    # -- identity ----------------------------------------------------------
    def me(self):
        return self.by_ident.get(threading.get_ident(), MAIN)

    def me_name(self):
        return self.me().name

    # -- thread creation ---------------------------------------------------
    def spawn(self, target, args, name):
        if self.started:
            self.point("spawn", name)
        vt = VT(len(self.threads), name or f"t{len(self.threads)}", target, args)
        self.threads.append(vt)
        th = threading.Thread(target=self._boot, args=(vt,), daemon=True, name="vt-" + vt.name)
        vt.thread = th
        th.start()
        return vt

    def _boot(self, vt):
        self.by_ident[threading.get_ident()] = vt
        vt.sem.acquire()
        if self.aborting:
            vt.state = "done"
            return
        vt.state = "run"
        try:
            vt.target(*vt.args)
        except SchedAbort:
            pass
        except BaseException as e:  # a virtual thread died
            vt.exc = e
            import traceback

            self.crashed.append((vt.name, repr(e), traceback.format_exc()))
        vt.state = "done"
        if self.aborting:
            return
        try:
            nxt = self._pick_next(vt)
        except SchedAbort:
            return
        if nxt is None:
            self._finish(self._terminal_reason())
        else:
            self.cur = nxt
            self.switches += 1
            nxt.sem.release()

    # -- running an execution ----------------------------------------------
    def run(self):
        """Called by the controller after build(): runs until terminal."""
        self.started = True
        gc.disable()
        first = self._pick_initial()
        if first is None:
            self.end_reason = "quiescent"
            return self.end_reason
        self.cur = first
        first.sem.release()
        # wall-clock watchdog: a thread blocked on something the scheduler does
        # not own (a real lock, a real socket) would otherwise hang the check
        if not self.ctrl.acquire(timeout=120):
            self.end_reason = "hang"
            self.fatal = "execution did not reach a terminal state within 120 s of wall-clock time (a thread is blocked outside the virtual environment?)"
        return self.end_reason

    def _pick_initial(self):
        # the controller is not a thread; use the normal picker with a dummy
        dummy = VT(-1, "ctrl", None, ())
        dummy.state = "done"
        return self._pick_next(dummy)

    def teardown(self):
        self.aborting = True
        stuck = []
        for t in self.threads:
            if t.thread is not None and t.thread.is_alive():
                t.sem.release()
                t.thread.join(10 if self.end_reason != "hang" else 1)
                if t.thread.is_alive():
                    stuck.append(t.name)
        gc.enable()
        if stuck and self.end_reason != "hang":
            raise RuntimeError(f"virtual threads {stuck} did not unwind")

    def _finish(self, reason):
        self.end_reason = reason
        self.cur = None
        self.ctrl.release()

    def _terminal_reason(self):
        for t in self.threads:
            if t.state == "blocked" and t.bkind == "spin":
                return "livelock"
        return "quiescent"

    # -- decisions ---------------------------------------------------------
    def _decide(self, kind, names, costs):
        i = len(self.bpoints)
        sig = (kind,) + tuple(names)
        c = self.choices.get(i, 0)
        exp = self.expect.get(i)
        if exp is not None and tuple(exp) != sig:
            self.fatal = f"replay divergence at branch point {i}: expected {tuple(exp)}, got {sig}"
            c = 0
        if c >= len(names):
            self.fatal = f"replay divergence at branch point {i}: choice {c} out of range {sig}"
            c = 0
        self.bpoints.append((kind, tuple(costs), sig))
        self.taken.append(c)
        return c

    def _enabled(self, t):
        st = t.state
        if st == "new" or st == "run":
            return True
        if st == "blocked":
            try:
                return bool(t.pred())
            except OSError:
                return True
        return False

    def _env_enabled(self):
        if self.env_pos < len(self.env_events):
            g = self.env_events[self.env_pos][0]
            return g is None or g()
        return False

    def _fire_env(self):
        g, act, label = self.env_events[self.env_pos]
        self.env_pos += 1
        self.switches += 1
        self._vis(-2, "env", label)
        act()

    def _vis(self, who, kind, label):
        self.trace_hash = hash((self.trace_hash, who, kind, label))
        if self.keep_trace:
            self.vis.append((who, kind, label))

    def _label(self, obj):
        if obj is None:
            return None
        lab = getattr(obj, "name", None) or getattr(obj, "label", None)
        if lab is not None:
            return lab
        if isinstance(obj, (int, str, tuple)):
            return obj
        return type(obj).__name__

    # -- the scheduling point ----------------------------------------------
    def point(self, kind, obj=None):
        me = self.by_ident.get(threading.get_ident())
        if me is None or not self.started:
            return
        if self.aborting:
            raise SchedAbort
        if self.cur is not me:
            # a thread running without the baton: scheduler bug
            raise RuntimeError(f"{me.name} runs without the baton (cur={self.cur})")
        self.steps += 1
        me.steps += 1
        if self.steps > self.horizon:
            self._finish("horizon")
            me.sem.acquire()
            raise SchedAbort
        if kind == "line":
            me.pos = obj
            skip_threads = False
            me.after_line = True
        else:
            skip_threads = self.dedupe and me.after_line
            me.after_line = False
            self._vis(me.idx, kind, self._label(obj))
        if self.collect_states and self.fp is not None:
            self.states.add(hash((self.fp(), tuple((t.state, t.pos) for t in self.threads), kind == "line")))
        names = [me.name]
        alts = [None]
        costs = [0]
        if not skip_threads:
            for t in self.threads:
                if t is not me and self._enabled(t):
                    names.append(t.name)
                    alts.append(t)
                    costs.append(1)
        if kind in OBSERVING and self._env_enabled():
            names.append("env")
            alts.append("env")
            costs.append(self.env_cost)
        if len(names) == 1:
            return
        c = self._decide("p" if kind != "line" else "p@%s:%d" % obj, names, costs)
        if c == 0:
            return
        a = alts[c]
        if a == "env":
            self._fire_env()
            return
        self._switch(me, a)

    def note(self, kind, obj=None):
        me = self.by_ident.get(threading.get_ident())
        if me is None or not self.started or self.aborting:
            return
        self._vis(me.idx, kind, self._label(obj))

    def _switch(self, me, other):
        self.cur = other
        self.switches += 1
        other.sem.release()
        me.sem.acquire()
        if self.aborting:
            raise SchedAbort

    def _pick_next(self, me):
        """me cannot continue (blocked or done): choose who runs next.
        Fires environment events and timers at quiescence.  Returns a VT or
        None (terminal)."""
        while True:
            en = [t for t in self.threads if self._enabled(t)]
            if en:
                if len(en) > 1:
                    c = self._decide("s", [t.name for t in en], [0] + [self.free_switch_cost] * (len(en) - 1))
                    return en[c]
                return en[0]
            if self._env_enabled():
                self._fire_env()
                continue
            timed = [t for t in self.threads if t.state == "blocked" and t.deadline is not None]
            if timed:
                t = min(timed, key=lambda t: (t.deadline, t.idx))
                if t.deadline > self.world.now:
                    self.world.now = t.deadline
                t.timed_out = True
                t.deadline = None
                t.pred = lambda: True
                self._vis(-3, "timer", t.name)
                return t
            return None

    def block_until(self, pred, kind, obj=None, timeout=None, reacquire=False):
        me = self.by_ident.get(threading.get_ident())
        if me is None or not self.started:
            if pred():
                return True
            raise RuntimeError(f"blocking operation ({kind}) while building a scenario")
        while True:
            if self.aborting:
                raise SchedAbort
            if pred():
                return True
            me.state = "blocked"
            me.pred = pred
            me.bkind = kind
            me.deadline = (self.world.now + timeout) if timeout is not None else None
            nxt = self._pick_next(me)
            if nxt is None:
                self._finish(self._terminal_reason())
                me.sem.acquire()
                raise SchedAbort
            if nxt is not me:
                self.cur = nxt
                self.switches += 1
                nxt.sem.release()
                me.sem.acquire()
                if self.aborting:
                    raise SchedAbort
            me.state = "run"
            me.deadline = None
            if me.timed_out:
                me.timed_out = False
                return False

    def wait_ready(self, scan, timeout, desc):
        me = self.by_ident.get(threading.get_ident())
        self.point("select", desc)
        if me is None or not self.started:
            return scan() or None
        res = scan()
        if res:
            key = (desc, self._world_fp(), self.switches)
            if me.last_sel == key:
                # the previous loop turn saw the same readiness, changed
                # nothing and nobody else moved: this thread is spinning
                sw = self.switches
                self.block_until(lambda: self.switches != sw, "spin", desc)
                res = scan()
                key = (desc, self._world_fp(), self.switches)
            me.last_sel = key
            if res:
                return res

        def pred():
            try:
                return bool(scan())
            except OSError:
                return True

        ok = self.block_until(pred, "select", desc, timeout=timeout)
        me.last_sel = None
        if not ok:
            return None
        return scan() or None

    def _world_fp(self):
        w = self.world
        parts = []
        for fd, o in w.fds.items():
            if isinstance(o, venv.VSock):
                parts.append((fd, len(o.inq), o.eof, o.reset, len(o.out), o.window, len(o.backlog)))
            else:
                parts.append((fd, o.pipe.count))
        return hash((tuple(parts), self.fp() if self.fp else None, w.now, self.nfaults, self.env_pos))

    def sleep(self, t):
        self.block_until(lambda: False, "sleep", None, timeout=t)

    # -- environment choices -------------------------------------------------
    def send_size(self, sock, n):
        if not self.send_alts or n <= 1 or not self.started or self.me() is MAIN:
            return n
        names = ["all"]
        vals = [n]
        for a in self.send_alts:
            if a == "one":
                names.append("one"); vals.append(1)
            elif a == "zero":
                names.append("zero"); vals.append(0)
            elif a == "half":
                names.append("half"); vals.append(n // 2)
        c = self._decide("send", names, [0] + [1] * (len(names) - 1))
        if c == 0:
            return n
        k = vals[c]
        # a short write means the kernel buffer is now full: the socket stays
        # unwritable until the client reads (an environment event, appended)
        sock.window = k
        self.env_events.insert(self.env_pos, (None, lambda s=sock: s.client_drain(None), f"drain:{sock.name}"))
        return k

    def fault(self, sock, op):
        if not self.started or self.fault_sites is None or self.nfaults >= self.max_faults:
            return None
        if self.me() is MAIN:
            return None
        if not self.fault_sites(sock, op):
            return None
        names = ["ok"] + [str(e) for e in self.fault_menu]
        c = self._decide("fault:%s.%s" % (sock.name, op), names, [0] + [1] * len(self.fault_menu))
        if c == 0:
            return None
        self.nfaults += 1
        f = self.fault_menu[c - 1]
        self._vis(-4, "fault", (sock.name, op, f))
        return f


# ---------------------------------------------------------------------------
# line-level scheduling points through sys.monitoring (PEP 669)
# ---------------------------------------------------------------------------
_mon_codes = set()
_mon_on = False


def _codes_of(obj, filename, acc):
    import types

    if isinstance(obj, types.CodeType):
        if obj.co_filename == filename and obj not in acc:
            acc.add(obj)
            for c in obj.co_consts:
                _codes_of(c, filename, acc)
        return
    if isinstance(obj, (staticmethod, classmethod)):
        obj = obj.__func__
    if isinstance(obj, property):
        for f in (obj.fget, obj.fset, obj.fdel):
            if f is not None:
                _codes_of(f, filename, acc)
        return
    if isinstance(obj, types.FunctionType):
        _codes_of(obj.__code__, filename, acc)
    elif isinstance(obj, type):
        for v in list(vars(obj).values()):
            _codes_of(v, filename, acc)


def code_objects(module, names=None):
    """All code objects defined in `module` (optionally only the top-level
    functions / classes / Class.method named in `names`)."""
    fn = module.__file__
    acc = set()
    if names is None:
        for v in list(vars(module).values()):
            _codes_of(v, fn, acc)
    else:
        for n in names:
            o = module
            for part in n.split("."):
                o = vars(o)[part] if isinstance(o, type) else getattr(o, part)
            _codes_of(o, fn, acc)
    return acc


def _on_line(code, line):
    w = venv.W
    if w is None:
        return
    s = w.sched
    if type(s) is ThreadSched and s.started and not s.aborting:
        s.point("line", (code.co_name, line))


def monitor(codes):
    """Make every line of the given code objects a scheduling point."""
    global _mon_on
    if not _mon_on:
        mon.use_tool_id(TOOL, "mc-sched")
        mon.register_callback(TOOL, mon.events.LINE, _on_line)
        _mon_on = True
    codes = set(codes)
    for c in list(_mon_codes - codes):
        # exactly the requested set: a scenario must not inherit scheduling points from the one before
        mon.set_local_events(TOOL, c, 0)
        _mon_codes.discard(c)
    for c in codes:
        if c not in _mon_codes:
            mon.set_local_events(TOOL, c, mon.events.LINE)
            _mon_codes.add(c)


def unmonitor_all():
    for c in list(_mon_codes):
        mon.set_local_events(TOOL, c, 0)
    _mon_codes.clear()
