"""Scripted WSGI applications used by the sequential and threaded harnesses."""


def digest(environ, body):
    """Snapshot-able image of one application call."""
    hdrs = tuple(sorted((k, v) for k, v in environ.items() if k.startswith("HTTP_") or k in ("CONTENT_LENGTH", "CONTENT_TYPE")))
    return (
        environ.get("REQUEST_METHOD"),
        environ.get("REQUEST_URI"),
        environ.get("SERVER_PROTOCOL"),
        hdrs,
        body,
    )


def echo_app(env, body=b"ok"):
    """Records every call in env.calls and answers 200 with a fixed body."""

    def app(environ, start_response):
        data = environ["wsgi.input"].read()
        env.calls.append(digest(environ, data))
        start_response("200 OK", [("Content-Length", str(len(body))), ("Content-Type", "text/plain")])
        return [body]

    return app
