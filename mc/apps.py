"""Scripted WSGI applications used by the sequential and threaded harnesses."""


def digest(environ, body):
    """Snapshot-able image of one application call."""
    hdrs = tuple(sorted((k, v) for k, v in environ.items() if k.startswith("HTTP_") or k in ("CONTENT_LENGTH", "CONTENT_TYPE")))
    return (
        environ.get("REQUEST_METHOD"),
        environ.get("REQUEST_URI"),
        environ.get("SERVER_PROTOCOL"),
        hdrs,
        body,
    )


def echo_app(env, body=b"ok"):
    """Records every call in env.calls and answers 200 with a fixed body."""

    def app(environ, start_response):
        data = environ["wsgi.input"].read()
        env.calls.append(digest(environ, data))
        start_response("200 OK", [("Content-Length", str(len(body))), ("Content-Type", "text/plain")])
        return [body]

    return app


# ---------------------------------------------------------------------------
# scripted response programs (C03, C08, C09)
# ---------------------------------------------------------------------------
import io


class AppError(Exception):
    pass


class Rec:
    """What one application invocation did / had done to it."""

    def __init__(self):
        self.started = False
        self.close_calls = 0
        self.file_close_calls = 0
        self.produced = b""  # body bytes handed to the server
        self.raised = None
        self.finished_iter = False
        self.write_errors = []


class TrackedFile(io.BytesIO):
    def __init__(self, data, rec):
        super().__init__(data)
        self.rec = rec

    def close(self):
        self.rec.file_close_calls += 1
        super().close()


class NoSeekFile:
    def __init__(self, data, rec):
        self._f = io.BytesIO(data)
        self.rec = rec

    def read(self, n=-1):
        return self._f.read(n)

    def close(self):
        self.rec.file_close_calls += 1
        self._f.close()


def make_exc(name):
    if name.startswith("Chained"):
        # an exception raised while another one was being handled (or "raise ... from ..."):
        # it carries __context__ / __cause__
        e = make_exc(name[len("Chained"):])
        inner = KeyError("inner failure")
        e.__context__ = inner
        e.__cause__ = inner
        return e
    return {
        "ValueError": ValueError, "OSError": OSError, "ConnectionResetError": ConnectionResetError,
        "KeyboardInterrupt": KeyboardInterrupt, "SystemExit": SystemExit, "GeneratorExit": GeneratorExit,
        "AppError": AppError, "BrokenPipeError": BrokenPipeError,
    }[name]("injected " + name)


class BodyIter:
    """The application's iterable: yields prog chunks, may raise at a step,
    counts close() calls.  kind 'list' additionally has __len__."""

    def __init__(self, prog, rec, chunks, with_len):
        self.prog, self.rec, self.chunks = prog, rec, chunks
        self.i = 0
        self._with_len = with_len

    def __iter__(self):
        return self

    def __next__(self):
        exc = self.prog.get("exc")
        if exc and exc[0] == "chunk" and exc[1] == self.i:
            self.rec.raised = exc
            raise make_exc(self.prog.get("exc_class", "ValueError"))
        if self.i >= len(self.chunks):
            self.rec.finished_iter = True
            raise StopIteration
        c = self.chunks[self.i]
        self.i += 1
        self.rec.produced += c
        return c

    def close(self):
        self.rec.close_calls += 1
        exc = self.prog.get("exc")
        if exc and exc[0] == "close":
            self.rec.raised = exc
            raise make_exc(self.prog.get("exc_class", "ValueError"))


class LazyIter(BodyIter):
    """A generator-function application: start_response() is only called when the
    server asks for the first chunk (PEP 3333 allows that)."""

    def __init__(self, prog, rec, chunks, start_response, headers):
        super().__init__(prog, rec, chunks, False)
        self._sr, self._hdrs = start_response, headers

    def __next__(self):
        if self._sr is not None:
            sr, self._sr = self._sr, None
            sr(self.prog["status"], self._hdrs)
            self.rec.started = True
        return super().__next__()


class BodyList(BodyIter):
    def __len__(self):
        return len(self.chunks)


def run_program(prog, environ, start_response, rec):
    """Interpret one response program.
    prog keys: status, headers, delivery, chunks, exc, exc_class, nwrite"""
    exc = prog.get("exc")

    def boom():
        rec.raised = exc
        raise make_exc(prog.get("exc_class", "ValueError"))

    if exc and exc[0] == "call":
        boom()
    headers = [tuple(h) for h in prog.get("headers", [])]
    if exc and exc[0] == "no_start":
        return BodyIter(prog, rec, list(prog["chunks"]), False)
    if prog["delivery"] == "lazy":
        return LazyIter(prog, rec, list(prog["chunks"]), start_response, headers)
    write = start_response(prog["status"], headers)
    rec.started = True
    if prog.get("restart"):
        # PEP 3333: start_response may be called again, with exc_info, as long
        # as no output has been sent; the new status/headers replace the old
        r2 = prog["restart"]
        try:
            raise AppError("superseded")
        except AppError:
            import sys

            write = start_response(r2["status"], [tuple(h) for h in r2["headers"]], sys.exc_info())
    if exc and exc[0] == "after_start":
        boom()
    chunks = list(prog["chunks"])
    delivery = prog["delivery"]
    if delivery in ("write", "write+iter", "write+list"):
        nw = len(chunks) if delivery == "write" else min(prog.get("nwrite", 1), len(chunks))
        for k in range(nw):
            if exc and exc[0] == "write" and exc[1] == k:
                boom()
            rec.produced += chunks[k]
            write(chunks[k])
        if exc and exc[0] == "late_restart":
            # the application fails after output has begun and reports it the PEP 3333 way:
            # start_response(..., exc_info) must re-raise, nothing of the error page may follow
            import sys

            rec.raised = exc
            try:
                raise make_exc(prog.get("exc_class", "ValueError"))
            except BaseException:
                start_response("500 Internal Server Error", [("Content-Type", "text/plain")], sys.exc_info())
            return BodyIter(prog, rec, [b"ERRORPAGE"], False)
        if delivery == "write+list":
            return BodyList(prog, rec, chunks[nw:], True)
        return BodyIter(prog, rec, chunks[nw:], False)
    if delivery == "list":
        return BodyList(prog, rec, chunks, True)
    if delivery == "gen":
        return BodyIter(prog, rec, chunks, False)
    if delivery in ("fw", "fw-noseek", "fw-offset"):
        data = b"".join(chunks)
        if delivery == "fw-offset":
            # a file already positioned past a prefix (e.g. by range middleware)
            f = TrackedFile(b"##" + data, rec)
            f.seek(2)
        else:
            f = TrackedFile(data, rec) if delivery == "fw" else NoSeekFile(data, rec)
        rec.produced += data
        rec.is_file = True
        rec.file_obj = f  # keep it alive: only an explicit close() may count
        return environ["wsgi.file_wrapper"](f, prog.get("block_size", 32768))
    raise ValueError(delivery)


def program_app(env, programs, recs):
    """WSGI app: the request path /<i> selects programs[i]; recs collects one
    Rec per invocation (in order)."""

    def app(environ, start_response):
        idx = int(environ["PATH_INFO"].strip("/") or 0)
        rec = Rec()
        rec.idx = idx
        rec.environ_method = environ["REQUEST_METHOD"]
        recs.append(rec)
        try:
            environ["wsgi.input"].read()
        except Exception:
            pass
        return run_program(programs[idx], environ, start_response, rec)

    return app
