"""Enumerators: sentences of a finite instance of the HTTP/1.x request grammar
and single-token mutations of them (C01, C02, C06)."""
import itertools

CRLF = b"\r\n"


class Tok:
    """One grammar token of a message with its role (used to choose mutations)."""

    __slots__ = ("b", "role")

    def __init__(self, b, role):
        self.b, self.role = b, role


def T(b, role="lit"):
    return Tok(b, role)


def chunked_body(chunks, ext=b"", trailers=()):
    toks = []
    off = 0
    alphabet = b"abcdefghijklmnopqrstuvwxyz"
    for n in chunks:
        toks += [T(b"%x" % n, "chunk-size"), T(ext, "chunk-ext"), T(CRLF, "crlf"), T(alphabet[off : off + n], "data"), T(CRLF, "crlf")]
        off += n
    toks += [T(b"0", "chunk-size"), T(ext, "chunk-ext"), T(CRLF, "crlf")]
    for name, val in trailers:
        toks += [T(name, "tname"), T(b":", "colon"), T(b" ", "ows"), T(val, "tvalue"), T(CRLF, "crlf")]
    toks.append(T(CRLF, "crlf"))
    return toks


def message(method=b"GET", target=b"/", version=b"HTTP/1.1", fields=(), body=None):
    """fields: list of (name, value, role) ; body: list of Tok or bytes"""
    toks = [T(method, "method"), T(b" ", "sp"), T(target, "target")]
    if version is not None:
        toks += [T(b" ", "sp"), T(version, "version")]
    toks.append(T(CRLF, "crlf"))
    for f in fields:
        name, val = f[0], f[1]
        role = f[2] if len(f) > 2 else "value"
        if name is None:  # raw line (obs-fold continuation etc.)
            toks += [T(val, role), T(CRLF, "crlf")]
            continue
        toks += [T(name, "name:" + role), T(b":", "colon"), T(b" ", "ows"), T(val, role), T(CRLF, "crlf")]
    toks.append(T(CRLF, "crlf"))
    if body is not None:
        if isinstance(body, (bytes, bytearray)):
            toks.append(T(bytes(body), "data"))
        else:
            toks += body
    return toks


def render(toks):
    return b"".join(t.b for t in toks)


# ---------------------------------------------------------------------------
# (a) grammar corpus
# ---------------------------------------------------------------------------
CL_VALUES = [None, b"0", b"1", b"3", b"03"]
TE_VALUES = [None, [b"chunked"], [b"Chunked"], [b"gzip, chunked"], [b"chunked, gzip"], [b"identity"], [b"chunked", b"chunked"]]
CONN_VALUES = [None, b"close", b"keep-alive"]
FILLERS = ["none", "obs-fold", "cl-alias", "te-alias", "repeat"]
VERSIONS = [b"HTTP/1.1", b"HTTP/1.0", None, b"HTTP/2.0"]
CHUNK_LISTS = [[], [3], [1, 2]]
CHUNK_EXTS = [b"", b";a", b";a=b", b';a="q\\"x"']
TRAILERS = [(), ((b"T", b"v"),)]


def head_fields(cl, te, conn, filler):
    f = [(b"Host", b"h", "value")]
    if filler == "cl-alias":
        f.append((b"Content_Length", b"7", "value"))
    if filler == "te-alias":
        f.append((b"Transfer_Encoding", b"chunked", "value"))
    if cl is not None:
        f.append((b"Content-Length", cl, "cl"))
    if filler == "obs-fold":
        f.append((b"X-Fold", b"a", "value"))
        f.append((None, b" b", "fold"))
    if te is not None:
        for v in te:
            f.append((b"Transfer-Encoding", v, "te"))
    if filler == "repeat":
        f.append((b"X-R", b"1", "value"))
        f.append((b"X-R", b"2", "value"))
    if conn is not None:
        f.append((b"Connection", conn, "conn"))
    return f


def corpus_messages(tier):
    """Yield (label, tokens) for single messages."""
    versions = VERSIONS
    for ver, cl, te, conn, filler in itertools.product(versions, CL_VALUES, TE_VALUES, CONN_VALUES, FILLERS):
        if tier == "quick" and filler in ("repeat",) and ver in (None, b"HTTP/2.0"):
            continue
        fields = head_fields(cl, te, conn, filler)
        label = (ver, cl, te, conn, filler)
        chunky = te is not None and any(b"chunked" in v.lower() for v in te)
        if chunky:
            bodies = []
            for ch, ext, tr in itertools.product(CHUNK_LISTS, CHUNK_EXTS, TRAILERS):
                if tier == "quick" and (ext != b"" and tr):
                    continue
                if ext != b"" and ch == [1, 2] and tier == "quick":
                    continue
                bodies.append((ch, ext, tr))
            for ch, ext, tr in bodies:
                yield label + (tuple(ch), ext, tr), message(b"POST", b"/p", ver, fields, chunked_body(ch, ext, tr))
        elif cl in (b"3", b"03"):
            yield label, message(b"POST", b"/p", ver, fields, b"abc")
        elif cl == b"1":
            # the smallest body there is: its single byte must not be read as the start of the next message
            yield label, message(b"POST", b"/p", ver, fields, b"G")
        else:
            yield label, message(b"GET", b"/g", ver, fields, None)
    # request-line variety with simple framing
    for method, target, ver in itertools.product([b"GET", b"POST"], [b"/", b"/a?b=c", b"http://h/p", b"*", b"//x/y"], versions):
        if method == b"POST":
            yield ("rl", method, target, ver), message(method, target, ver, [(b"Host", b"h"), (b"Content-Length", b"3", "cl")], b"abc")
        else:
            yield ("rl", method, target, ver), message(method, target, ver, [(b"Host", b"h")], None)


FOLLOW = [
    None,
    message(b"GET", b"/next", b"HTTP/1.1", [(b"Host", b"n")]),
    message(b"POST", b"/next", b"HTTP/1.1", [(b"Host", b"n"), (b"Content-Length", b"2", "cl")], b"xy"),
    message(b"POST", b"/next", b"HTTP/1.1", [(b"Host", b"n"), (b"Transfer-Encoding", b"chunked", "te")], chunked_body([2])),
]


def corpus_streams(tier):
    """Yield (label, stream) for pipelines of 1..2 messages (+ optional leading
    CRLF)."""
    for label, toks in corpus_messages(tier):
        first = render(toks)
        for k, fol in enumerate(FOLLOW):
            if tier == "quick" and k == 3 and label[0] != b"HTTP/1.1":
                continue
            for lead in (b"", b"\r\n"):
                if lead and (k != 1):
                    continue
                s = lead + first + (lead + render(fol) if fol else b"")
                yield (label, k, bool(lead)), s
    yield ("empty",), b""
    yield ("crlf-only",), b"\r\n\r\n"


# ---------------------------------------------------------------------------
# (b) single-token mutations
# ---------------------------------------------------------------------------
def number_variants(n):
    d = b"%d" % n
    return [
        b"+" + d, b"-" + d, b"0x" + d, d + b"_0", b" " + d, d + b" ", d + b"\n", d + b"\r", "٥".encode("utf-8"), b"",
        b"1e1", d + b"," + d, d + b", " + (b"%d" % (n + 1)), b"0" + d, d + b".0", b"\x0b" + d, d + b"\x0b", d + b";", b"\t" + d,
        d + b"\x00", b"\xa0" + d, d + b"\x85", b"0" * 20 + d,
        # a control byte hidden in front of an obs-fold: whatever joins the lines must not strip it
        d + b"\x0b\r\n ", d + b"\x0c\r\n\t", d + b"\r\n \x0b",
    ]


def hex_variants(h):
    return [
        b"+" + h, b"-" + h, b"0x" + h, h + b"_0", b" " + h, h + b" ", h + b"\n", h + b"\r", b"", h + b"g", b"g" + h,
        b"\x0b" + h, h + b"\x0b", h + b"\t", b"\t" + h, h + b"\x00", b"0" + h, h.upper() if h != h.upper() else h.lower() + b"",
        h + b",", h + b"=",
    ]


TERMINATOR_VARIANTS = [b"\n", b"\r", b"\r\r\n", b"\n\r", b"", b"\r\n\r\n", b"\r\n ", b" \r\n", b"\n\n"]
ODD_BYTES = [b"\x00", b"\x09", b"\x0b", b"\x0c", b"\x7f", b"\x85", b"\xa0", b" ", b"\r", b"\n"]
TE_VARIANTS = [
    b"chunked\x0b\r\n ", b"chunked\x0c\r\n\t", b"chunked\r\n \x0b",
    b"chunked ", b"\tchunked", b"chunked\x0b", b"xchunked", b"chunked;q=1", b'"chunked"', b"chunked,", b",chunked", b"chunked, chunked",
    b"CHUNKED", b"chunKed", b"identity", b"chunked\x00", b"chunked\x85", b"\x0bchunked", b"chunked\xa0", b"chunked, identity", b"gzip", b"",
    b"chunked\r", b"chunke", b"chunkedd", b", chunked", b"chunked ,", b" , chunked",
]
EXT_VARIANTS = [b";", b"; a", b";a =b", b";a= b", b";a=b ", b";a=", b";=b", b';a="', b';a="\\', b';a="x"y', b";a\n", b";a=b\n", b";a;b", b";a=b;c=d", b";\x00", b";a\x0b", b" ;a", b"\t", b" ", b';a="\x7f"', b';a="\\\x00"']
NAME_ALIASES = {
    b"Content-Length": [b"Content_Length", b"content-length", b"CONTENT-LENGTH", b"Content-Length ", b" Content-Length", b"Content-Length\t", b"Content\xadLength", b"Content-Length_", b"Content-Lengt", b"X-Content-Length"],
    b"Transfer-Encoding": [b"Transfer_Encoding", b"transfer-encoding", b"TRANSFER-ENCODING", b"Transfer-Encoding ", b" Transfer-Encoding", b"Transfer-Encoding\t", b"Transfer-Encoding_", b"Transfer-Encodin", b"X-Transfer-Encoding"],
}


def base_messages():
    return [
        ("get", message(b"GET", b"/g", b"HTTP/1.1", [(b"Host", b"h"), (b"X-A", b"v w")])),
        ("cl", message(b"POST", b"/p", b"HTTP/1.1", [(b"Host", b"h"), (b"Content-Length", b"5", "cl")], b"hello")),
        ("chunked", message(b"POST", b"/p", b"HTTP/1.1", [(b"Host", b"h"), (b"Transfer-Encoding", b"chunked", "te")], chunked_body([5, 10], b"", ((b"T", b"v"),)))),
        ("chunked-ext", message(b"POST", b"/p", b"HTTP/1.1", [(b"Host", b"h"), (b"Transfer-Encoding", b"chunked", "te")], chunked_body([3], b";a=b"))),
        ("cl-te", message(b"POST", b"/p", b"HTTP/1.1", [(b"Host", b"h"), (b"Content-Length", b"5", "cl"), (b"Transfer-Encoding", b"chunked", "te")], chunked_body([5]))),
        ("cl-10", message(b"POST", b"/p", b"HTTP/1.0", [(b"Host", b"h"), (b"Connection", b"keep-alive", "conn"), (b"Content-Length", b"5", "cl")], b"hello")),
        ("te-10", message(b"POST", b"/p", b"HTTP/1.0", [(b"Connection", b"keep-alive", "conn"), (b"Transfer-Encoding", b"chunked", "te")], chunked_body([5]))),
        ("fold", message(b"GET", b"/g", b"HTTP/1.1", [(b"Host", b"h"), (b"X-F", b"a"), (None, b"\tb", "fold"), (b"Connection", b"keep-alive", "conn")])),
    ]


def mutations(toks):
    """Yield (description, new token bytes list) for every single-token mutation."""
    bs = [t.b for t in toks]

    def with_(i, new):
        return bs[:i] + [new] + bs[i + 1 :]

    for i, t in enumerate(toks):
        role = t.role
        if role == "cl":
            n = int(t.b)
            for v in number_variants(n):
                yield (f"cl[{i}]={v!r}", with_(i, v))
        if role == "chunk-size":
            for v in hex_variants(t.b):
                yield (f"chunk-size[{i}]={v!r}", with_(i, v))
        if role == "chunk-ext":
            for v in EXT_VARIANTS:
                if v != t.b:
                    yield (f"chunk-ext[{i}]={v!r}", with_(i, v))
        if role == "te":
            for v in TE_VARIANTS:
                yield (f"te[{i}]={v!r}", with_(i, v))
        if role == "crlf":
            for v in TERMINATOR_VARIANTS:
                yield (f"crlf[{i}]={v!r}", with_(i, v))
        if role == "colon":
            for v in (b" :", b"\t:", b": :", b"", b"::", b" : "):
                yield (f"colon[{i}]={v!r}", with_(i, v))
        if role.startswith("name:") and t.b in NAME_ALIASES:
            for v in NAME_ALIASES[t.b]:
                yield (f"name[{i}]={v!r}", with_(i, v))
        if role in ("version",):
            for v in (b"HTTP/1.0", b"HTTP/1.2", b"HTTP/2.0", b"HTTP/0.9", b"http/1.1", b"HTTP/1.1 ", b"HTTP/11", b"HTTP/1.1\x00", b"HTTP/1."):
                yield (f"version[{i}]={v!r}", with_(i, v))
        if role in ("tvalue", "tname"):
            for v in (b"", t.b + b"\n", t.b + b"\r", b" " + t.b, t.b + b"\x00", t.b + b" x"):
                yield (f"{role}[{i}]={v!r}", with_(i, v))
        if role == "data" and len(t.b) > 0:
            yield (f"data[{i}]-1", with_(i, t.b[:-1]))
            yield (f"data[{i}]+1", with_(i, t.b + b"Z"))
        # deletion of the token
        if t.b:
            yield (f"del[{i}]", bs[:i] + bs[i + 1 :])
        # one odd byte inserted at the token boundary before i
        for ob in ODD_BYTES:
            yield (f"ins[{i}]={ob!r}", bs[:i] + [ob] + bs[i:])
    # duplicated / list-valued framing header lines
    for i, t in enumerate(toks):
        if t.role in ("cl", "te"):
            # the five tokens name : ows value crlf start at i-3
            line = bs[i - 3 : i + 2]
            yield (f"dup-line[{i}]", bs[: i + 2] + line + bs[i + 2 :])
            if t.role == "cl":
                n = int(t.b)
                other = bs[i - 3 : i] + [b"%d" % (n + 1)] + [bs[i + 1]]
                yield (f"conflict-line[{i}]", bs[: i + 2] + other + bs[i + 2 :])
                yield (f"conflict-line-first[{i}]", bs[: i - 3] + other + bs[i - 3 :])
