"""Reference models written from RFC 9110 / 9112 / PEP 3333 only.

Nothing here imports waitress.  The style is deliberately boring: explicit
loops over bytes, no regular expressions shared with the implementation.

parse_requests(stream, max_header, max_body)  -> list of events
parse_responses(wire, request_methods)         -> list of Response (client side)
"""

TCHAR = frozenset(b"!#$%&'*+-.^_`|~0123456789abcdefghijklmnopqrstuvwxyzABCDEFGHIJKLMNOPQRSTUVWXYZ")
DIGITS = frozenset(b"0123456789")
HEXDIGITS = frozenset(b"0123456789abcdefABCDEF")
WS_BYTES = frozenset(b" \t\r\n\x0b\x0c")


def is_token(b):
    return len(b) > 0 and all(c in TCHAR for c in b)


def ows_trim(b):
    i, j = 0, len(b)
    while i < j and b[i] in (0x20, 0x09):
        i += 1
    while j > i and b[j - 1] in (0x20, 0x09):
        j -= 1
    return b[i:j]


def decimal_value(digits):
    """Value of a 1*DIGIT string of any length (no use of int() on long
    strings: the interpreter limits that conversion)."""
    d = digits.lstrip(b"0")
    if len(d) > 30:
        return 10 ** 30  # larger than any limit or stream
    return int(d.decode("ascii") or "0")


class Msg:
    """One request message as an RFC 9112 recipient extracts it."""

    def __init__(self):
        self.method = b""
        self.target = b""
        self.version = None  # b"1.1", b"1.0", other bytes, or None when absent
        self.fields = []  # (name bytes as sent, value bytes OWS-trimmed, obs-fold joined)
        self.body = b""
        self.framing = "none"  # none | length | chunked
        self.must_close = False  # RFC requires closing after this message
        self.conn_close = False  # ordinary persistence rules say close after it
        self.either = []  # tolerances that apply: recipient may also refuse
        self.start = 0
        self.end = 0
        self.trailers = []

    def __repr__(self):
        return f"<Msg {self.method!r} {self.target!r} {self.version!r} {self.framing} body={self.body!r} either={self.either} close={self.must_close or self.conn_close}>"


class Reject:
    def __init__(self, reason, codes=(400,), at=0, soft=False):
        self.reason, self.codes, self.at = reason, tuple(codes), at
        self.soft = soft  # refusal permitted, not required (never produced today)

    def __repr__(self):
        return f"<Reject {self.reason} {self.codes}>"


class Need:
    def __init__(self, what, at=0, either=()):
        self.what, self.at = what, at
        self.either = list(either)  # tolerances already met: refusal permitted

    def __repr__(self):
        return f"<Need {self.what}>"


def _split_lines_strict(block):
    """Split a head/trailer block at CRLF.  Returns (lines, bare) where bare is
    True when a CR without LF or LF without CR occurs anywhere."""
    lines = []
    bare = False
    cur = bytearray()
    i = 0
    n = len(block)
    while i < n:
        c = block[i]
        if c == 0x0D:
            if i + 1 < n and block[i + 1] == 0x0A:
                lines.append(bytes(cur))
                cur = bytearray()
                i += 2
                continue
            bare = True
        elif c == 0x0A:
            bare = True
        cur.append(c)
        i += 1
    lines.append(bytes(cur))
    return lines, bare


def parse_field_lines(lines, either):
    """lines: field lines (no terminators).  Returns list of (name, value) or a
    string (reason for rejection)."""
    fields = []
    for ln in lines:
        if ln == b"":
            continue
        if ln[0] in (0x20, 0x09):
            # obs-fold (RFC 9112 5.2): reject or replace by SP
            if not fields:
                return "whitespace-preceded first field line"
            either.append("obs-fold")
            name, val = fields[-1]
            fields[-1] = (name, val + ln)  # joined as received; trimmed below
            continue
        colon = ln.find(b":")
        if colon < 0:
            return "field line without colon"
        name = ln[:colon]
        if not is_token(name):
            return "field name is not a token (or whitespace before colon)"
        fields.append((name, ln[colon + 1 :]))
    out = []
    for name, raw in fields:
        val = ows_trim(raw)
        for c in val:
            if c in (0x0D, 0x0A):
                return "CR/LF in field value"
            if (c < 0x20 and c != 0x09) or c == 0x7F:
                # RFC 9110 5.5: invalid; may be rejected, replaced or retained
                if "ctl-in-value" not in either:
                    either.append("ctl-in-value")
        out.append((name, val))
    return out


def _te_codings(values, either):
    """Combine all Transfer-Encoding field values into the list of codings."""
    items = []
    for v in values:
        for part in v.split(b","):
            p = ows_trim(part)
            if p == b"":
                if "te-empty-element" not in either:
                    either.append("te-empty-element")
                continue
            items.append(p)
    return items


def parse_chunked(buf, pos, max_body):
    """Decode a chunked body starting at pos.  Returns (body, trailers, end, either)
    or Reject / Need."""
    r = _parse_chunked(buf, pos, max_body)
    if isinstance(r, Need) and max_body is not None and len(buf) - pos >= max_body:
        # the limit may be applied to the encoded size (the only protection
        # against an unterminated control line or trailer): refusal permitted
        r.either.append("raw-chunked-size-over-limit")
    return r


def _parse_chunked(buf, pos, max_body):
    body = bytearray()
    either = []
    raw = 0
    n = len(buf)
    start = pos
    while True:
        eol = buf.find(b"\r\n", pos)
        if eol < 0:
            # an unterminated size line: a bare LF/CR inside it is already wrong
            # but the verdict "need more" is equally safe (nothing delivered)
            return Need("chunk-size line", pos, either)
        line = buf[pos:eol]
        semi = line.find(b";")
        size_part = line if semi < 0 else line[:semi]
        ext = b"" if semi < 0 else line[semi:]
        sp = size_part
        # BWS before ';' is tolerated by the grammar (obsolete): either
        st = sp.rstrip(b" \t")
        if st != sp and semi >= 0:
            either.append("bws-in-chunk-ext")
            sp = st
        if len(sp) == 0 or any(c not in HEXDIGITS for c in sp):
            return Reject("invalid chunk size", (400,), pos)
        r = check_chunk_ext(ext, either)
        if r is not None:
            return Reject(r, (400,), pos)
        size = int(sp.decode("ascii"), 16) if len(sp.lstrip(b"0")) < 30 else 16 ** 30
        pos = eol + 2
        if size == 0:
            break
        if n - pos < size:
            raw_avail = n - pos
            if max_body is not None and len(body) + raw_avail >= max_body:
                return Reject("body too large", (413,), pos)
            return Need("chunk data", pos, either)
        body += buf[pos : pos + size]
        pos += size
        if max_body is not None and len(body) >= max_body:
            return Reject("body too large", (413,), pos)
        if n - pos < 2:
            if n - pos == 1 and buf[pos] != 0x0D:
                return Reject("chunk not terminated by CRLF", (400,), pos)
            return Need("chunk terminator", pos, either)
        if buf[pos : pos + 2] != b"\r\n":
            return Reject("chunk not terminated by CRLF", (400,), pos)
        pos += 2
    # trailer section: *( field-line CRLF ) CRLF
    if buf[pos : pos + 2] == b"\r\n":
        if max_body is not None and pos + 2 - start >= max_body:
            either.append("raw-chunked-size-over-limit")
        return bytes(body), [], pos + 2, either
    end = buf.find(b"\r\n\r\n", pos)
    if end < 0:
        return Need("trailer", pos, either)
    block = buf[pos:end]
    lines, bare = _split_lines_strict(block)
    if bare:
        return Reject("bare CR or LF in trailer", (400,), pos)
    tr = parse_field_lines(lines, either)
    if isinstance(tr, str):
        return Reject("malformed trailer: " + tr, (400,), pos)
    if max_body is not None and end + 4 - start >= max_body:
        # the limit may be applied to the encoded size (policy): refusal permitted
        either.append("raw-chunked-size-over-limit")
    return bytes(body), tr, end + 4, either


def check_chunk_ext(ext, either):
    """ext is b'' or starts with ';'.  chunk-ext = *( BWS ";" BWS name [ BWS "=" BWS val ] )"""
    i, n = 0, len(ext)

    def bws(i):
        j = i
        while j < n and ext[j] in (0x20, 0x09):
            j += 1
        if j != i and "bws-in-chunk-ext" not in either:
            either.append("bws-in-chunk-ext")
        return j

    while i < n:
        i = bws(i)
        if i >= n:
            # trailing BWS after the last extension is not in the grammar
            return "trailing whitespace after chunk extension"
        if ext[i] != 0x3B:
            return "chunk extension does not start with ';'"
        i = bws(i + 1)
        j = i
        while j < n and ext[j] in TCHAR:
            j += 1
        if j == i:
            return "chunk extension name is not a token"
        i = j
        k = bws(i)
        if k < n and ext[k] == 0x3D:
            i = bws(k + 1)
            if i < n and ext[i] == 0x22:
                i += 1
                while True:
                    if i >= n:
                        return "unterminated quoted-string in chunk extension"
                    c = ext[i]
                    if c == 0x22:
                        i += 1
                        break
                    if c == 0x5C:
                        if i + 1 >= n:
                            return "dangling backslash in chunk extension"
                        q = ext[i + 1]
                        if not (q == 0x09 or q == 0x20 or 0x21 <= q <= 0x7E or q >= 0x80):
                            return "invalid quoted-pair in chunk extension"
                        i += 2
                        continue
                    if not (c == 0x09 or c == 0x20 or c == 0x21 or 0x23 <= c <= 0x5B or 0x5D <= c <= 0x7E or c >= 0x80):
                        return "invalid qdtext in chunk extension"
                    i += 1
            else:
                j = i
                while j < n and ext[j] in TCHAR:
                    j += 1
                if j == i:
                    return "chunk extension value is not a token or quoted-string"
                i = j
        elif k != i:
            # BWS followed by something that is not '=': fine only if next is ';' or end
            i = k
            if i >= n:
                return "trailing whitespace after chunk extension"
    return None


def parse_one(buf, pos, max_header=None, max_body=None):
    """Parse one request message from buf starting at pos.
    Returns Msg, Reject, Need, or None (clean end of stream)."""
    n = len(buf)
    start = pos
    m = Msg()
    # RFC 9112 2.2: ignore empty lines before the request line
    while buf[pos : pos + 2] == b"\r\n":
        pos += 2
    if pos >= n:
        return None  # nothing but empty lines left: clean end of stream
    # other leading whitespace is tolerated by some recipients: either
    q = pos
    while q < n and buf[q] in WS_BYTES:
        q += 1
    if q != pos:
        m.either.append("leading-whitespace")
        if q >= n:
            return Need("request line", pos)
    end = buf.find(b"\r\n\r\n", q)
    if end < 0:
        if max_header is not None and n - start >= max_header:
            return Reject("header block too large", (431,), start)
        return Need("head", pos)
    if max_header is not None and (end + 4 - q) >= max_header:
        return Reject("header block too large", (431,), start)
    if max_header is not None and (end + 4 - start) >= max_header:
        # empty lines / whitespace before the request line may be counted
        m.either.append("leading-bytes-counted-toward-header-limit")
    head = buf[q:end]
    m.start = start
    lines, bare = _split_lines_strict(head)
    rl = lines[0]
    # -- request line -------------------------------------------------------
    rls = rl.rstrip(b" \t\r\n\x0b\x0c")
    if rls != rl:
        # RFC 9112 2.2 / 3: trailing whitespace (or a bare CR, replaced by SP)
        # at the end of the request line may be tolerated
        m.either.append("trailing-whitespace-in-request-line")
    if any(c in (0x0D, 0x0A) for c in rls) or any(c in (0x0D, 0x0A) for ln in lines[1:] for c in ln):
        return Reject("bare CR or LF in head", (400,), start)
    parts = rls.split(b" ")
    strict = len(parts) == 3
    if len(parts) == 3:
        method, target, ver = parts
    elif len(parts) == 2:
        method, target = parts
        ver = None
        m.either.append("no-version")
    else:
        return Reject("malformed request line", (400,), start)
    if not is_token(method) or len(target) == 0:
        return Reject("malformed request line", (400,), start)
    if ver is not None:
        if not (len(ver) == 8 and ver[:5] == b"HTTP/" and ver[5] in DIGITS and ver[6] == 0x2E and ver[7] in DIGITS):
            return Reject("malformed HTTP version", (400,), start)
        ver = ver[5:]
        if ver not in (b"1.1", b"1.0"):
            m.either.append("unsupported-version")
    if method != method.upper():
        m.either.append("lower-case-method")
    for c in target:
        if c <= 0x20 or c == 0x7F:
            if "ctl-in-target" not in m.either:
                m.either.append("ctl-in-target")
        elif c >= 0x80:
            if "obs-text-in-target" not in m.either:
                m.either.append("obs-text-in-target")
    if b"[" in target or b"]" in target:
        # an IP-literal that does not parse may be refused (policy, T7)
        m.either.append("bracket-in-target")
    m.method, m.target, m.version = method, target, ver
    # -- field lines ----------------------------------------------------------
    fl = parse_field_lines(lines[1:], m.either)
    if isinstance(fl, str):
        return Reject(fl, (400,), start)
    m.fields = fl
    low = [(nm.lower(), v) for nm, v in fl]
    te = [v for nm, v in low if nm == b"transfer-encoding"]
    cl = [v for nm, v in low if nm == b"content-length"]
    conn = [v for nm, v in low if nm == b"connection"]
    is11 = ver == b"1.1"
    pos = end + 4
    # -- persistence (RFC 9112 9.3) -------------------------------------------
    conn_tokens = [t.strip().lower() for v in conn for t in v.split(b",")]
    if is11:
        m.conn_close = b"close" in conn_tokens
    else:
        m.conn_close = b"keep-alive" not in conn_tokens
    # -- framing (RFC 9112 6.3) -----------------------------------------------
    if te and is11:
        codings = _te_codings(te, m.either)
        if not codings:
            # only empty list elements: no coding at all; outside the corpus
            m.either.append("te-empty")
            codings = []
        lc = [c.lower() for c in codings]
        if lc and lc != [b"chunked"]:
            if all(is_token(c.split(b";")[0].strip()) for c in codings) and lc[-1] == b"chunked" and lc.count(b"chunked") == 1:
                return Reject("unsupported transfer coding", (501, 400), start)
            return Reject("invalid Transfer-Encoding", (400, 501), start)
        if lc == [b"chunked"]:
            m.framing = "chunked"
            if cl:
                m.must_close = True  # RFC 9112 6.1 / 6.3 rule 3
                # "A server MAY reject a request that contains both"
                m.either.append("cl+te")
            r = parse_chunked(buf, pos, max_body)
            if isinstance(r, Need):
                r.either = m.either + r.either
            if isinstance(r, (Reject, Need)):
                return r
            body, trailers, endpos, eith = r
            for e in eith:
                if e not in m.either:
                    m.either.append(e)
            m.body, m.trailers, m.end = body, trailers, endpos
            return m
    if te and not is11:
        # RFC 9112 6.1: framing is to be treated as faulty; the message may be
        # processed but the connection must be closed afterwards
        m.must_close = True
    if cl:
        if len(cl) > 1:
            return Reject("repeated Content-Length", (400,), start)
        v = cl[0]
        if b"," in v:
            vals = [ows_trim(x) for x in v.split(b",")]
            if all(len(x) > 0 and all(c in DIGITS for c in x) for x in vals) and len(set(decimal_value(x) for x in vals)) == 1:
                # RFC 9110 8.6: may be folded or rejected
                m.either.append("content-length-list")
                v = vals[0]
            else:
                return Reject("invalid Content-Length list", (400,), start)
        if len(v) == 0 or any(c not in DIGITS for c in v):
            return Reject("invalid Content-Length", (400,), start)
        length = decimal_value(v)
        if length > 0:
            if max_body is not None and length >= max_body:
                return Reject("body too large", (413,), start)
            m.framing = "length"
            if n - pos < length:
                return Need("body", pos)
            m.body = buf[pos : pos + length]
            pos += length
    m.end = pos
    return m


def parse_requests(stream, max_header=None, max_body=None, limit=50):
    """All events of a stream: Msg*, then optionally one Reject or Need."""
    evs = []
    pos = 0
    stream = bytes(stream)
    while len(evs) < limit:
        r = parse_one(stream, pos, max_header, max_body)
        if r is None:
            break
        evs.append(r)
        if not isinstance(r, Msg):
            break
        pos = r.end
        if pos >= len(stream):
            break
    return evs


# ---------------------------------------------------------------------------
# client side
# ---------------------------------------------------------------------------
class Response:
    def __init__(self):
        self.version = b""
        self.status = 0
        self.reason = b""
        self.fields = []  # (name, value) as on the wire
        self.body = b""
        self.framing = ""  # none | length | chunked | close
        self.complete = True
        self.head_lines = []
        self.start = 0
        self.end = 0

    def get(self, name):
        name = name.lower()
        return [v for k, v in self.fields if k.lower() == name]

    def announces_close(self):
        for v in self.get(b"connection"):
            for t in v.split(b","):
                if t.strip().lower() == b"close":
                    return True
        return False

    def announces_keepalive(self):
        for v in self.get(b"connection"):
            for t in v.split(b","):
                if t.strip().lower() == b"keep-alive":
                    return True
        return False

    def __repr__(self):
        return f"<Resp {self.status} {self.framing} body={self.body[:40]!r} complete={self.complete}>"


class WireError(Exception):
    pass


def parse_responses(wire, methods, closed=True, final_1xx=False):
    """Parse the server's byte stream as an RFC 9112 client would.
    methods: request methods in order (needed for HEAD).  Raises WireError on
    any byte that cannot be accounted for.  Interim (1xx) responses are
    returned too, with status 1xx; they do not consume a method."""
    wire = bytes(wire)
    out = []
    pos = 0
    mi = 0
    n = len(wire)
    while pos < n:
        end = wire.find(b"\r\n\r\n", pos)
        if end < 0:
            raise WireError(f"incomplete response head at {pos}: {wire[pos:pos+60]!r}")
        head = wire[pos:end]
        lines, bare = _split_lines_strict(head)
        if bare:
            raise WireError(f"bare CR/LF in response head: {head!r}")
        r = Response()
        r.start = pos
        r.head_lines = lines
        sl = lines[0]
        if not (len(sl) >= 12 and sl[:5] == b"HTTP/" and sl[5] in DIGITS and sl[6] == 0x2E and sl[7] in DIGITS and sl[8] == 0x20
                and all(c in DIGITS for c in sl[9:12]) and (len(sl) == 12 or sl[12] == 0x20)):
            raise WireError(f"malformed status line {sl!r}")
        r.version = sl[5:8]
        r.status = int(sl[9:12])
        r.reason = sl[13:]
        for ln in lines[1:]:
            c = ln.find(b":")
            if c <= 0 or not is_token(ln[:c]):
                raise WireError(f"malformed response field line {ln!r}")
            r.fields.append((ln[:c], ows_trim(ln[c + 1 :])))
        pos = end + 4
        if 100 <= r.status < 200 and not final_1xx:
            r.framing = "none"
            r.end = pos
            out.append(r)
            continue
        if mi >= len(methods):
            raise WireError(f"response without a request: {sl!r}")
        method = methods[mi]
        mi += 1
        te = r.get(b"transfer-encoding")
        cl = r.get(b"content-length")
        if method == b"HEAD" or r.status in (204, 304) or r.status < 200:
            r.framing = "none"
        elif te:
            if [t.strip().lower() for v in te for t in v.split(b",")] != [b"chunked"]:
                raise WireError(f"unexpected Transfer-Encoding {te!r}")
            r.framing = "chunked"
            res = parse_chunked(wire, pos, None)
            if isinstance(res, Need):
                r.complete = False
                r.body = b""
                pos = n
            elif isinstance(res, Reject):
                raise WireError(f"malformed chunked response body: {res.reason}")
            else:
                r.body, _, pos, eith = res
                if eith:
                    raise WireError(f"non-canonical chunked response body: {eith}")
        elif cl:
            if len(set(cl)) != 1 or not cl[0] or any(c not in DIGITS for c in cl[0]):
                raise WireError(f"invalid Content-Length {cl!r}")
            ln = int(cl[0])
            r.framing = "length"
            r.body = wire[pos : pos + ln]
            if len(r.body) < ln:
                r.complete = False
            pos += ln
        else:
            r.framing = "close"
            r.body = wire[pos:]
            r.complete = closed
            pos = n
        r.end = min(pos, n)
        out.append(r)
    return out
