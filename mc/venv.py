"""The closed environment: virtual sockets, self-pipe, select/poll, os, clock and
threading primitives that replace the operating system under waitress.

Everything here delegates to a *world* (`W`, one per execution) and to the
world's *scheduler* (`W.sched`): `mc.sched.SeqSched` for single-threaded
drivers (nothing ever blocks; a blocking call that could not proceed raises
`SeqBlocked`) or `mc.sched.ThreadSched` for the controlled-scheduler explorer.

install() substitutes module attributes of waitress (never its source):
    waitress.wasyncore.select / os / time
    waitress.trigger.os / threading
    waitress.channel.threading / time,  waitress.task.threading / time
    waitress.server.time
"""
import errno
import os as _os
import select as _select
import socket as _socket
import time as _time
import types
from collections import deque

W = None  # current world


def world():
    return W


class SeqBlocked(Exception):
    """A blocking call could not proceed under the sequential driver."""


# ---------------------------------------------------------------------------
# world
# ---------------------------------------------------------------------------
class World:
    def __init__(self, sched, now=1_000_000_000.0):
        self.sched = sched
        sched.world = self
        self.now = now
        self.fds = {}  # fd -> VSock | VPipeEnd
        self.next_fd = 10
        self.log = []  # captured logging records (level, message)
        self.events = []  # environment-visible trace: (thread, kind, detail)
        self.nprog = 0  # number of events other than select/poll
        self.faults = {}  # (sock name, op) -> list of errno-or-None consumed per call
        self.observe_time = False  # time() is a scheduling point only when clock events exist
        self.sticky = (errno.ECONNRESET, errno.EPIPE, errno.ENOTCONN, errno.ESHUTDOWN, errno.ECONNABORTED, errno.ETIMEDOUT, errno.EHOSTUNREACH)
        # calls that would have blocked the calling thread in the kernel because the descriptor was left
        # in blocking mode: (object, operation, thread).  Reported by every driver as a violation.
        self.blocked = []

    def would_block(self, obj, op):
        self.blocked.append((getattr(obj, "name", None) or f"fd{getattr(obj, 'fd', '?')}", op, self.sched.me_name()))
        esc = getattr(self, "escaped", None)
        if esc is not None:
            esc.append(("VSock", "BlockingCall", f"{op} on a descriptor left in blocking mode would block the thread"))

    def alloc_fd(self, obj):
        fd = self.next_fd
        self.next_fd += 1
        self.fds[fd] = obj
        return fd

    def ev(self, kind, detail=None):
        if kind != "select" and kind != "poll":
            self.nprog += 1
        self.events.append((self.sched.me_name(), kind, detail))


def set_world(w):
    global W
    W = w
    return w


# ---------------------------------------------------------------------------
# sockets
# ---------------------------------------------------------------------------
class VSock:
    """A connected (or listening) stream socket as waitress sees it."""

    def __init__(self, w, name, peer=("127.0.0.1", 40000), listening=False, family=_socket.AF_INET):
        self.w = w
        self.name = name
        self.peer = peer
        self.listening = listening
        self.family = family
        self.type = _socket.SOCK_STREAM
        self.proto = 0
        self.inq = bytearray()  # bytes sent by the client, not yet received (the kernel coalesces segments)
        self.eof = False  # client has shut down its sending side (FIN)
        self.reset = None  # errno once the connection is dead
        self.out = bytearray()  # bytes delivered to the client
        self.window = None  # bytes the kernel will still accept (None: unlimited)
        self.backlog = deque()  # for listeners: VSock objects waiting to be accepted
        self.closed = False
        self.close_calls = []  # names of threads that called close()
        self.ops = 0
        self.sndbuf = 65536
        self.recv_calls = 0
        self.send_calls = 0
        self.blocking = True  # as a new socket is; waitress must switch it off before using it in the loop
        self.fd = w.alloc_fd(self)

    def __getstate__(self):
        # harness bookkeeping (call counters) is not implementation state
        d = dict(self.__dict__)
        d["ops"] = d["recv_calls"] = d["send_calls"] = 0
        return d

    # -- environment side (called by scenario scripts) --------------------
    def client_send(self, data):
        if data and not self.closed:
            self.inq += data

    def client_eof(self):
        self.eof = True

    def client_reset(self, err=errno.ECONNRESET):
        self.reset = err

    def client_drain(self, n=None):
        """The client reads: the kernel accepts n more bytes (None: unlimited)."""
        if n is None:
            self.window = None
        else:
            self.window = (self.window or 0) + n

    # -- readiness ---------------------------------------------------------
    def readable_now(self):
        if self.listening:
            return bool(self.backlog)
        return bool(self.inq) or self.eof or self.reset is not None

    def writable_now(self):
        return self.window is None or self.window > 0 or self.reset is not None

    # -- the socket API used by waitress ------------------------------------
    def _enter(self, op):
        s = self.w.sched
        s.point("sock." + op, self)
        self.ops += 1
        if self.closed:
            raise OSError(errno.EBADF, "Bad file descriptor")
        f = s.fault(self, op)
        if f is not None:
            if f in self.w.sticky and not self.listening:
                # a connection that failed this way stays dead (an error from
                # accept() concerns the new connection, not the listener)
                self.reset = f
            if f == -1:
                raise OSError("injected generic OSError")
            raise OSError(f, _os.strerror(f))

    def fileno(self):
        return self.fd

    def setblocking(self, flag):
        self._enter("setblocking")
        self.blocking = bool(flag)

    def getsockopt(self, level, opt, buflen=None):
        self._enter("getsockopt")
        if level == _socket.SOL_SOCKET and opt == _socket.SO_SNDBUF:
            return self.sndbuf
        return 0

    def setsockopt(self, level, opt, value):
        self._enter("setsockopt")

    def getsockname(self):
        return ("127.0.0.1", 8080)

    def getpeername(self):
        return self.peer

    def bind(self, addr):
        pass

    def listen(self, n):
        self.listening = True

    def accept(self):
        self._enter("accept")
        if not self.backlog:
            if self.blocking:
                self.w.would_block(self, "accept")
            raise BlockingIOError(errno.EWOULDBLOCK, "would block")
        conn = self.backlog.popleft()
        self.w.ev("accept", conn.name)
        return conn, conn.peer

    def recv(self, n):
        self._enter("recv")
        self.recv_calls += 1
        if self.reset is not None:
            raise OSError(self.reset, _os.strerror(self.reset))
        if self.inq:
            seg = bytes(self.inq[:n])
            del self.inq[:n]
            self.w.ev("recv", (self.name, len(seg)))
            return seg
        if self.eof:
            self.w.ev("recv", (self.name, 0))
            return b""
        if self.blocking:
            self.w.would_block(self, "recv")
        raise BlockingIOError(errno.EWOULDBLOCK, "would block")

    def send(self, data):
        self._enter("send")
        self.send_calls += 1
        if self.reset is not None:
            e = errno.EPIPE if self.reset == errno.ECONNRESET else self.reset
            raise OSError(e, _os.strerror(e))
        n = len(data)
        if self.window is not None:
            n = min(n, self.window)
        n = self.w.sched.send_size(self, n)
        if self.blocking and n < len(data):
            # a blocking send() does not return before everything has been taken
            self.w.would_block(self, "send")
        if n <= 0:
            raise BlockingIOError(errno.EWOULDBLOCK, "would block")
        if self.window is not None:
            self.window -= n
        self.out += bytes(data[:n])
        self.w.ev("send", (self.name, n))
        return n

    def close(self):
        s = self.w.sched
        s.point("sock.close", self)
        self.close_calls.append(s.me_name())
        self.w.ev("close", self.name)
        if self.closed:
            raise OSError(errno.EBADF, "Bad file descriptor")
        self.closed = True
        self.w.fds.pop(self.fd, None)

    def __repr__(self):
        return f"<VSock {self.name} fd={self.fd}>"

    def __bool__(self):
        return True


# ---------------------------------------------------------------------------
# self-pipe (trigger)
# ---------------------------------------------------------------------------
class VPipe:
    def __init__(self):
        self.count = 0
        self.writes = 0


class VPipeEnd:
    def __init__(self, w, pipe, kind):
        self.pipe = pipe
        self.kind = kind  # "r" | "w"
        self.fd = w.alloc_fd(self)
        self.closed = False
        self.flags = {"blocking": True}  # file status flags live in the open file description: shared by dup()

    @property
    def blocking(self):
        return self.flags["blocking"]

    @blocking.setter
    def blocking(self, v):
        self.flags["blocking"] = v

    def readable_now(self):
        return self.kind == "r" and self.pipe.count > 0

    def writable_now(self):
        return self.kind == "w"


class VOs:
    """Replacement for the `os` module inside waitress.trigger / wasyncore."""

    name = "posix"
    strerror = staticmethod(_os.strerror)
    path = _os.path

    def __getattr__(self, name):  # anything not virtualised falls through
        return getattr(_os, name)

    def pipe(self):
        p = VPipe()
        r = VPipeEnd(W, p, "r")
        wr = VPipeEnd(W, p, "w")
        return r.fd, wr.fd

    def dup(self, fd):
        o = W.fds.get(fd)
        if not isinstance(o, VPipeEnd):
            raise OSError(errno.EBADF, "Bad file descriptor")
        n = VPipeEnd(W, o.pipe, o.kind)
        n.flags = o.flags
        return n.fd

    def set_blocking(self, fd, flag):
        if fd not in W.fds:
            raise OSError(errno.EBADF, "Bad file descriptor")
        W.fds[fd].blocking = bool(flag)

    def close(self, fd):
        W.sched.point("os.close", fd)
        o = W.fds.pop(fd, None)
        if o is None:
            raise OSError(errno.EBADF, "Bad file descriptor")
        o.closed = True
        W.ev("os.close", fd)

    def read(self, fd, n):
        W.sched.point("pipe.read", fd)
        o = W.fds.get(fd)
        if not isinstance(o, VPipeEnd):
            raise OSError(errno.EBADF, "Bad file descriptor")
        if o.pipe.count == 0:
            if o.blocking:
                W.would_block(o, "pipe.read")
            raise BlockingIOError(errno.EAGAIN, "would block")
        k = min(n, o.pipe.count)
        o.pipe.count -= k
        W.ev("pipe.read", k)
        return b"x" * k

    def write(self, fd, data):
        W.sched.point("pipe.write", fd)
        o = W.fds.get(fd)
        if not isinstance(o, VPipeEnd):
            raise OSError(errno.EBADF, "Bad file descriptor")
        o.pipe.count += len(data)
        o.pipe.writes += 1
        W.ev("pipe.write", len(data))
        return len(data)


# ---------------------------------------------------------------------------
# select / poll
# ---------------------------------------------------------------------------
def _ready(fd, want_r, want_w):
    o = W.fds.get(fd)
    if o is None:
        return None
    return (want_r and o.readable_now(), want_w and o.writable_now())


class VPoll:
    def __init__(self):
        self.reg = {}

    def register(self, fd, flags):
        self.reg[fd] = flags

    def unregister(self, fd):
        del self.reg[fd]

    def _scan(self):
        res = []
        for fd, flags in self.reg.items():
            o = W.fds.get(fd)
            if o is None:
                res.append((fd, _select.POLLNVAL))
                continue
            ev = 0
            if flags & _select.POLLIN and o.readable_now():
                ev |= _select.POLLIN
            if flags & _select.POLLOUT and o.writable_now():
                ev |= _select.POLLOUT
            if isinstance(o, VSock) and o.reset is not None:
                ev |= _select.POLLERR | _select.POLLHUP
            if ev:
                res.append((fd, ev))
        return res

    def poll(self, timeout=None):
        s = W.sched
        W.ev("poll", tuple(sorted(self.reg.items())))
        res = s.wait_ready(self._scan, timeout / 1000.0 if timeout is not None else None, ("poll", tuple(sorted(self.reg))))
        return res


class VSelect:
    """Replacement for the `select` module inside waitress.wasyncore."""

    POLLIN = _select.POLLIN
    POLLPRI = _select.POLLPRI
    POLLOUT = _select.POLLOUT
    POLLERR = _select.POLLERR
    POLLHUP = _select.POLLHUP
    POLLNVAL = _select.POLLNVAL
    error = OSError

    def poll(self):
        return VPoll()

    def select(self, r, w, e, timeout=None):
        # lists are taken *as passed*: readiness changes are seen, membership
        # changes are not (that is what makes a lost wake-up observable)
        r, w, e = list(r), list(w), list(e)
        W.ev("select", (tuple(r), tuple(w)))

        def scan():
            for fd in set(r) | set(w) | set(e):
                if fd not in W.fds:
                    raise OSError(errno.EBADF, "Bad file descriptor")
            rr = [fd for fd in r if W.fds[fd].readable_now()]
            ww = [fd for fd in w if W.fds[fd].writable_now()]
            if rr or ww:
                return (rr, ww, [])
            return None

        res = W.sched.wait_ready(scan, timeout, ("select", tuple(r), tuple(w)))
        if res is None:
            return ([], [], [])
        return res


# ---------------------------------------------------------------------------
# time
# ---------------------------------------------------------------------------
class VTime:
    def __getattr__(self, name):
        return getattr(_time, name)

    def time(self):
        if W.observe_time:
            W.sched.point("time", None)
        return W.now

    def monotonic(self):
        return W.now

    def sleep(self, t):
        W.sched.sleep(t)


# ---------------------------------------------------------------------------
# threading
# ---------------------------------------------------------------------------
class VLock:
    reentrant = False

    def __init__(self):
        self.owner = None
        self.count = 0
        self.label = None

    def acquire(self, blocking=True, timeout=-1):
        s = W.sched
        s.point("lock.acquire", self)
        me = s.me()
        if self.reentrant and self.owner is me:
            self.count += 1
            return True
        if not blocking:
            if self.owner is None:
                self.owner, self.count = me, 1
                s.note("lock.acquired", self)
                return True
            s.note("lock.tryfail", self)
            return False
        s.block_until(lambda: self.owner is None, "lock", self)
        self.owner, self.count = me, 1
        s.note("lock.acquired", self)
        return True

    def release(self):
        s = W.sched
        if self.owner is not s.me():
            raise RuntimeError("release of un-acquired lock")
        s.point("lock.release", self)
        self.count -= 1
        if self.count == 0:
            self.owner = None
            s.note("lock.released", self)

    def locked(self):
        return self.owner is not None

    def __enter__(self):
        self.acquire()
        return self

    def __exit__(self, *a):
        self.release()

    # Condition support
    def _release_save(self):
        st = (self.owner, self.count)
        self.owner, self.count = None, 0
        return st

    def _acquire_restore(self, st):
        self.owner, self.count = st

    def _is_owned(self):
        return self.owner is W.sched.me()


class VRLock(VLock):
    reentrant = True


class VCondition:
    def __init__(self, lock=None):
        self._lock = lock if lock is not None else VRLock()
        self.waiters = []
        self.label = None

    def acquire(self, *a, **kw):
        return self._lock.acquire(*a, **kw)

    def release(self):
        return self._lock.release()

    def __enter__(self):
        self._lock.acquire()
        return self

    def __exit__(self, *a):
        self._lock.release()

    def wait(self, timeout=None):
        s = W.sched
        if not self._lock._is_owned():
            raise RuntimeError("cannot wait on un-acquired lock")
        s.point("cv.wait", self)
        tok = [False]
        self.waiters.append(tok)
        st = self._lock._release_save()
        s.note("cv.waiting", self)
        try:
            s.block_until(lambda: tok[0], "cv", self, timeout=timeout)
        finally:
            if tok in self.waiters:
                self.waiters.remove(tok)
            s.block_until(lambda: self._lock.owner is None, "lock", self._lock, reacquire=True)
            self._lock._acquire_restore(st)
        return tok[0]

    def notify(self, n=1):
        s = W.sched
        if not self._lock._is_owned():
            raise RuntimeError("cannot notify on un-acquired lock")
        s.point("cv.notify", self)
        for tok in self.waiters[:n]:
            tok[0] = True
        del self.waiters[:n]
        s.note("cv.notified", self)

    def notify_all(self):
        self.notify(len(self.waiters))

    notifyAll = notify_all


class VThreadHandle:
    """Replacement for threading.Thread (only what waitress uses)."""

    def __init__(self, target=None, name=None, args=(), kwargs=None, daemon=None):
        self.target, self.name, self.args = target, name, args
        self.kwargs = kwargs or {}
        self.daemon = daemon

    def start(self):
        W.sched.spawn(self.target, self.args, self.name)

    def join(self, timeout=None):
        raise NotImplementedError


class VThreading:
    Lock = VLock
    RLock = VRLock
    Condition = VCondition
    Thread = VThreadHandle

    def __getattr__(self, name):
        raise AttributeError(f"virtual threading has no {name}")


# ---------------------------------------------------------------------------
# installation
# ---------------------------------------------------------------------------
_installed = False
vos = VOs()
vselect = VSelect()
vtime = VTime()
vthreading = VThreading()


class _LogCapture:
    """logging handler that appends to the current world's log list"""

    level = 0

    def handle(self, record):
        if W is not None:
            try:
                msg = record.getMessage()
            except Exception:
                msg = repr(record.msg)
            if record.exc_info:
                import traceback

                msg += "\n" + "".join(traceback.format_exception(*record.exc_info))
            W.log.append((record.levelname, msg))
        return True


def install():
    """Substitute the environment into the waitress modules (idempotent)."""
    global _installed
    if _installed:
        return
    import logging

    import waitress.channel
    import waitress.server
    import waitress.task
    import waitress.trigger
    import waitress.wasyncore

    waitress.wasyncore.select = vselect
    waitress.wasyncore.os = vos
    waitress.wasyncore.time = vtime
    waitress.trigger.os = vos
    waitress.trigger.threading = vthreading
    waitress.channel.threading = vthreading
    waitress.channel.time = vtime
    waitress.task.threading = vthreading
    waitress.task.time = vtime
    waitress.server.time = vtime
    for name in ("waitress", "waitress.queue"):
        lg = logging.getLogger(name)
        lg.handlers[:] = [_LogCapture()]
        lg.propagate = False
        lg.setLevel(logging.DEBUG)
    import warnings

    warnings.simplefilter("ignore")
    _installed = True
