"""./check <id> [--tier quick|thorough] [--replay path]"""
import argparse
import importlib
import json
import os
import sys

from . import common


def main(argv=None):
    ap = argparse.ArgumentParser(prog="check")
    ap.add_argument("pid")
    ap.add_argument("--tier", default=os.environ.get("VERIF_TIER") or "quick", choices=["quick", "thorough"])
    ap.add_argument("--replay", default=None)
    ap.add_argument("--only", default=None, help="run only the named sub-check (development aid)")
    a = ap.parse_args(argv)
    pid = a.pid.upper()
    common.setup_path()
    try:
        mod = importlib.import_module(f"mc.props.{pid.lower()}")
    except ModuleNotFoundError as e:
        if e.name != f"mc.props.{pid.lower()}":
            raise
        print(f"no check for {pid}", file=sys.stderr)
        return 2
    if a.replay:
        with open(a.replay) as f:
            obj = json.load(f)
        return mod.replay(obj["replay"] if "replay" in obj else obj)
    if a.only:
        return mod.main(a.tier, only=a.only)
    return mod.main(a.tier)


if __name__ == "__main__":
    sys.exit(main())
