"""C09  Application failures are contained and the iterable is always closed.

E5: the response programs of C03 with an exception injected at every step,
x exception class x expose_tracebacks x log_socket_errors, and a client
disconnect (the I/O thread's teardown) injected before every step; executed on
the real server under the sequential driver.
"""
import itertools
import multiprocessing as mp
import random

from .. import apps, common, refhttp, seq
from ..evidence import Run

EXC_CLASSES = ["ValueError", "OSError", "ConnectionResetError", "KeyboardInterrupt", "SystemExit", "GeneratorExit", "ChainedValueError", "ChainedOSError"]
_envs = {}


def get_env(expose, logsock):
    k = (expose, logsock)
    e = _envs.get(k)
    if e is None:
        e = seq.Env(None, expose_tracebacks=expose, log_socket_errors=logsock)
        _envs[k] = e
    return e


def steps_of(prog):
    """failure points of a program"""
    d = prog["delivery"]
    n = len(prog["chunks"])
    pts = [("call",), ("no_start",), ("after_start",)]
    if d in ("write", "write+iter"):
        nw = n if d == "write" else min(prog.get("nwrite", 1), n)
        pts += [("write", k) for k in range(nw)]
        pts += [("chunk", k) for k in range(0, n - nw + 1)]
        if nw > 0:
            pts.append(("late_restart",))
    elif d in ("list", "gen"):
        pts += [("chunk", k) for k in range(0, n + 1)]
    if d not in ("fw", "fw-noseek"):
        pts.append(("close",))
    return pts


def output_begun_before(prog, exc):
    """Has any byte of the response left the application side before the
    failure point?  (write() sends the head even for empty data; iteration
    sends it with the first non-empty chunk.)"""
    d = prog["delivery"]
    chunks = prog["chunks"]
    kind = exc[0]
    if kind in ("call", "after_start", "no_start"):
        return False
    nw = 0
    if d in ("write", "write+iter"):
        nw = len(chunks) if d == "write" else min(prog.get("nwrite", 1), len(chunks))
    if kind == "write":
        return exc[1] > 0
    if kind == "late_restart":
        return True  # at least one write() call has happened: the head is out
    if kind == "chunk":
        if nw > 0:
            return True
        return any(chunks[: exc[1]])
    if kind == "close":
        return True  # everything was produced; the head left at the latest in finish()... unless nothing was written
    return False


def run_case(case):
    env = get_env(case["expose"], case["logsock"])
    env.activate()
    prog = case["prog"]
    recs = []
    base = apps.program_app(env, [prog, {"status": "200 OK", "headers": [("Content-Length", "2")], "delivery": "list", "chunks": [b"ok"]}], recs)
    conn_holder = {}

    disc = case.get("disconnect")

    def app(environ, start_response):
        it = base(environ, start_response)
        if disc == "call":
            # the client goes away while the application is still running
            ch = conn_holder["conn"].ch
            if ch is not None:
                env.S.acting_as = "io"
                ch.handle_close()
                env.S.acting_as = "worker"
            return it
        if disc is None or not hasattr(it, "chunks"):
            return it
        # inject the I/O thread's teardown before iteration step k
        orig_next = it.__class__.__next__

        class Wrapped(it.__class__):
            def __next__(self2):
                if self2.i == disc and not conn_holder.get("done"):
                    conn_holder["done"] = True
                    ch = conn_holder["conn"].ch
                    if ch is not None:
                        env.S.acting_as = "io"
                        ch.handle_close()
                        env.S.acting_as = "worker"
                return orig_next(self2)

        it.__class__ = Wrapped
        return it

    env.app = app
    del env.escaped[:]
    del env.disp.worker_exc[:]
    c = env.connect()
    conn_holder["conn"] = c
    c.send(b"GET /0 HTTP/1.1\r\nHost: h\r\n\r\n")
    res = dict(wire=c.wire, closed=c.closed, recs=list(recs), escaped=list(env.escaped), worker_exc=list(env.disp.worker_exc), log=list(env.W.log))
    # is the connection wedged?  (requests still queued, nothing running)
    ch = c.ch
    res["wedged"] = bool(ch is not None and ch.requests)
    if not c.closed and ch is not None:
        ch.handle_close()
    res["rec_after_teardown"] = (recs[0].close_calls, recs[0].file_close_calls) if recs else None
    # the server must still serve a new connection
    del recs[:]
    c2 = env.connect()
    c2.send(b"GET /1 HTTP/1.1\r\nHost: h\r\nConnection: close\r\n\r\n")
    res["next_wire"] = c2.wire
    if not c2.closed and c2.ch is not None:
        c2.ch.handle_close()
    return res


def two_files_case(raise_first):
    """Two pipelined file_wrapper responses are still queued (stalled client)
    when the connection is torn down; the first file's close() may raise.
    Every handed-over file must be closed exactly once."""
    import io

    env = get_env(False, True)
    env.activate()
    files = []

    class F(io.BytesIO):
        def __init__(self, data, boom):
            super().__init__(data)
            self.boom = boom
            self.closes = 0

        def close(self):
            self.closes += 1
            if self.boom and self.closes == 1:
                raise OSError("close failed")
            super().close()

    def app(environ, start_response):
        f = F(b"x" * 40, raise_first and not files)
        files.append(f)
        start_response("200 OK", [("Content-Length", "40")])
        return environ["wsgi.file_wrapper"](f)

    env.app = app
    del env.escaped[:]
    del env.disp.worker_exc[:]
    c = env.connect(pump=True)
    c.sock.window = 0  # the client does not read
    c.send(b"GET /0 HTTP/1.1\r\nHost: h\r\n\r\nGET /0 HTTP/1.1\r\nHost: h\r\n\r\n")
    c.reset()
    if not c.closed and c.ch is not None:
        c.ch.handle_close()
    v = []
    if len(files) != 2:
        v.append(("harness:two-files", f"{len(files)} file_wrapper responses were produced, 2 expected"))
    for i, f in enumerate(files):
        if f.closes != 1:
            v.append((f"file-close-count:two-queued:{'first-close-raises' if raise_first else 'plain'}", f"file {i} of two queued file_wrapper responses closed {f.closes} times at teardown"))
    for e in env.escaped:
        v.append((f"escaped:{e[1]}", str(e)))
    return v


def judge(case, res):
    v = []
    prog, exc = case["prog"], case["prog"].get("exc")
    for e in res["escaped"]:
        v.append((f"escaped:{e[1]}", f"exception escaped an event handler: {e}"))
    if not res["next_wire"].startswith(b"HTTP/1.1 200 OK"):
        v.append(("server-dead", f"a new connection is not served after the failure: {res['next_wire'][:80]!r}"))
    wire = res["wire"]
    if not case["expose"] and (b"Traceback" in wire or b"injected" in wire):
        v.append(("traceback-leaked", f"traceback text on the wire without expose_tracebacks: {wire[-200:]!r}"))
    rec = res["recs"][0] if res["recs"] else None
    if case.get("disconnect") is not None:
        # client went away in mid-response: no 500 can be expected; the
        # connection must be gone and the iterable closed exactly once
        if res["wedged"]:
            v.append(("wedged-after-disconnect", "requests still queued on a dead connection"))
        if rec is not None and rec.started and rec.close_calls != 1 and not getattr(rec, "is_file", False):
            v.append(("close-count-after-disconnect", f"iterable close() called {rec.close_calls} times after a client disconnect before step {case['disconnect']}"))
        if rec is not None and getattr(rec, "is_file", False):
            cc = res["rec_after_teardown"]
            if cc is None or cc[1] != 1:
                v.append(("file-close-count-after-disconnect", f"file handed over through wsgi.file_wrapper closed {cc[1] if cc else None} times after a client disconnect during the application call"))
        return v
    if exc is None:
        return v
    begun = output_begun_before(prog, exc)
    try:
        resps = refhttp.parse_responses(wire, [b"GET"], closed=True)
        resps = [r for r in resps if r.status >= 200]
    except refhttp.WireError as e:
        v.append(("wire-unparseable", f"{e}; wire={wire[:200]!r}"))
        resps = None
    cls = case["prog"].get("exc_class")
    tag = f"exc {cls} at {exc} prog={ {k: prog[k] for k in ('delivery', 'chunks', 'headers')} } expose={case['expose']} logsock={case['logsock']}"
    if res["wedged"]:
        v.append((f"wedged:{_family(cls)}", f"{tag}: request never answered and connection neither closed nor reapable (requests still queued)"))
    elif not res["closed"]:
        v.append((f"not-closed:{_family(cls)}", f"{tag}: connection still open after the failure; wire={wire[:100]!r}"))
    if resps is not None and not res["wedged"]:
        if not begun:
            if len(resps) != 1 or resps[0].status != 500 or not resps[0].complete:
                v.append((f"no-500:{_family(cls)}:logsock={case['logsock']}", f"{tag}: failure before any output must give one complete 500; got {[(r.status, r.complete) for r in resps]} wire={wire[:80]!r}"))
        else:
            if len(resps) > 1:
                v.append(("bytes-after-failure", f"{tag}: {len(resps)} responses on the wire"))
            if b"ERRORPAGE" in wire:
                v.append(("bytes-after-failure", f"{tag}: the application's error page was sent although output had begun: {wire[-60:]!r}"))
            elif resps and resps[0].status == 500 and exc[0] != "close":
                pass
    # close() exactly once whenever the application returned its iterable
    if rec is not None and exc[0] not in ("call", "after_start", "write", "late_restart") and not getattr(rec, "is_file", False):
        if rec.close_calls != 1:
            v.append((f"close-count:{rec.close_calls}:{_family(cls)}", f"{tag}: iterable close() called {rec.close_calls} times"))
    return v


def _family(cls):
    if cls in ("KeyboardInterrupt", "SystemExit", "GeneratorExit"):
        return "BaseException"
    if cls in ("OSError", "ConnectionResetError", "BrokenPipeError", "ChainedOSError"):
        return "OSError"
    return "Exception"


def base_programs(tier):
    out = []
    bodies = [[], [b"a"], [b"", b"a"], [b"a", b"bc"], [b"", b""]]
    if tier == "thorough":
        bodies += [[b"a", b"", b"bc"], [b"", b"a", b"bc"]]
    for delivery in ("list", "gen", "write", "write+iter", "fw", "fw-noseek"):
        for chunks in bodies:
            if delivery == "write+iter" and len(chunks) < 2:
                continue
            for cl in ("none", "exact"):
                total = sum(map(len, chunks))
                headers = [("X-App", "v")] + ([("Content-Length", str(total))] if cl == "exact" else [])
                out.append(dict(status="200 OK", headers=headers, delivery=delivery, chunks=chunks))
    # body-less statuses whose head is forced out by write(b"") (for the late start_response(exc_info) point)
    for status in ("304 Not Modified", "204 No Content"):
        out.append(dict(status=status, headers=[("X-App", "v")], delivery="write", chunks=[b""]))
    return out


def cases(tier):
    for prog in base_programs(tier):
        for expose in (False, True):
            for logsock in (True, False):
                for pt in steps_of(prog):
                    for cls in EXC_CLASSES:
                        p = dict(prog)
                        p["exc"] = pt
                        p["exc_class"] = cls
                        yield dict(prog=p, expose=expose, logsock=logsock)
                # client disconnect while the application runs (every path, incl. file_wrapper)
                yield dict(prog=dict(prog), expose=expose, logsock=logsock, disconnect="call")
                # client disconnect before iteration step k (iterable paths)
                if prog["delivery"] in ("list", "gen", "write+iter"):
                    for k in range(0, len(prog["chunks"]) + 1):
                        yield dict(prog=dict(prog), expose=expose, logsock=logsock, disconnect=k)
    # file wrapper: file closed once the data has been sent or on teardown
    for delivery in ("fw",):
        for chunks in ([b"a"], [b"a", b"bc"]):
            yield dict(prog=dict(status="200 OK", headers=[], delivery=delivery, chunks=chunks), expose=False, logsock=True, filecheck=True)


def _batch(items):
    out = []
    classes = set()
    for case in items:
        res = run_case(case)
        v = judge(case, res)
        if case.get("filecheck"):
            cc = res["rec_after_teardown"]
            if cc is None or cc[1] != 1:
                v.append(("file-close-count", f"file handed over through wsgi.file_wrapper closed {cc} times (close_calls, file_close_calls) after send+teardown"))
        p = case["prog"]
        classes.add((p["delivery"], len(p["chunks"]), p.get("exc"), _family(p.get("exc_class", "ValueError")), case["expose"], case["logsock"], case.get("disconnect"), res["closed"], res["wire"][9:12]))
        for key, what in v:
            out.append((key, what, case))
    return len(items), classes, out


def main(tier, only=None):
    run = Run("C09", tier)
    rnd = random.Random(common.SEED)
    run.cov["rule"] = (
        "programs (6 delivery paths x chunk lists x declared length) with an exception injected at every step (call, missing start_response, after start_response, each write(), each iteration step incl. the end, close()) "
        "x 6 exception classes x expose_tracebacks x log_socket_errors, and a client disconnect before every iteration step; distinct_nontrivial = distinct (program class, failure point, class family, config, outcome) tuples"
    )
    run.assume("one fixed schedule: the disconnect is the I/O thread's handle_close() performed between two worker steps (other placements: C13)", "the synchronous dispatcher stands for the worker loop, which catches BaseException like the real one")
    items = list(cases(tier))
    if only:
        items = [c for c in items if only in repr(c)]
    rnd.shuffle(items)
    batches = [items[i : i + 200] for i in range(0, len(items), 200)]
    ctx = mp.get_context("fork")
    n = 0
    classes = set()
    viol = []
    with ctx.Pool(common.NPROC) as pool:
        for k, cl, out in pool.imap_unordered(_batch, batches):
            n += k
            classes |= cl
            viol += out
    for rf in (False, True):
        n += 1
        for key, what in two_files_case(rf):
            viol.append((key, what, {"special": "two-files", "raise_first": rf}))
    run.add(states=len(classes), transitions=n, traces_validated_against_impl=n, evaluations=n, distinct_nontrivial=len(classes))
    run.part("cases", total=n)
    for c in items[:3]:
        run.sample(c)
    seen = {}
    for key, what, case in viol:
        seen.setdefault(key, []).append((what, case))
    for k, lst in sorted(seen.items()):
        lst.sort(key=lambda x: len(repr(x[1])))
        what, case = lst[0]
        run.violation(k, f"{what} [{len(lst)} cases]", case)
    return run.finish()


def replay(rep):
    if rep.get("special") == "two-files":
        v = two_files_case(rep["raise_first"])
        for k, w in v:
            print("VIOLATION-DETAIL", k, w)
        return 1 if v else 0
    case = rep
    p = case["prog"]
    p["chunks"] = [c.encode("latin-1") for c in p["chunks"]]
    p["headers"] = [tuple(h) for h in p["headers"]]
    if p.get("exc"):
        p["exc"] = tuple(p["exc"])
    res = run_case(case)
    print("wire:", res["wire"], "closed:", res["closed"], "wedged:", res["wedged"])
    v = judge(case, res)
    for k, w in v:
        print("VIOLATION-DETAIL", k, w)
    return 1 if v else 0
