"""C12  Output buffering is bounded: fast producers are paused and always released.

E1: one producing worker and the draining I/O thread; write sizes below / at /
above the mark, watermark and send_bytes settings incl. degenerate ones, drain
patterns (partial, stall, disconnect at any point).
"""
from .. import explore
from ..evidence import Run
from . import c04


class Producer(c04.Pipe):
    name = "producer"

    def oracle(self, ctx, S, W, reason):
        v = []
        ch, sock, app, track, ref = ctx["ch"], ctx["sock"], ctx["app"], ctx["track"], ctx["ref"]
        wm = ctx["srv"].adj.outbuf_high_watermark
        for name, exc, tb in S.crashed:
            v.append((f"thread-died:{name.split('-')[0]}", f"{name} died: {exc}\n{tb[-300:]}"))
        if reason not in ("quiescent", "livelock"):
            v.append(("end:" + reason, f"execution ended with {reason}"))
        for lvl, msg in W.log:
            if lvl in ("ERROR", "CRITICAL") and not msg.startswith("Socket error"):
                v.append((f"logged-error:{msg.strip().splitlines()[0].split(' ')[0]}", f"server logged: {msg.strip().splitlines()[0][:80]} ... {msg.strip().splitlines()[-1][:100]}"))
                break
        if track["worst"] is not None:
            t, w, mw = track["worst"]
            v.append(("bound-exceeded", f"{t} bytes pending with watermark {w} and largest single write {mw}"))
        parked = bool(ch.outbuf_lock.waiters)
        if parked:
            if not ch.connected:
                v.append(("parked-after-disconnect", "producer still waiting although the connection is gone"))
            elif ch.total_outbufs_len <= wm:
                v.append((f"parked-with-space:watermark={wm}", f"producer waits although only {ch.total_outbufs_len} bytes are pending (watermark {wm}, send_bytes {ctx['srv'].adj.send_bytes}, socket writable={sock.writable_now()})"))
            elif sock.writable_now() and not sock.closed:
                v.append((f"parked-while-client-reads:send_bytes={ctx['srv'].adj.send_bytes}", f"producer waits with {ch.total_outbufs_len} bytes pending (watermark {wm}) and the socket is writable, but nobody sends (send_bytes={ctx['srv'].adj.send_bytes})"))
        # teardown is the I/O thread's business, and nothing is accepted after it
        bad = [n for n in sock.close_calls if n not in ("io", "main")]
        if bad:
            v.append(("socket-closed-by-worker", f"socket closed by {bad}"))
        badm = [(k, fd, who) for k, fd, who in ctx["map"].mutations if who not in ("io", "main")]
        if badm:
            v.append(("map-edited-by-worker", f"socket map mutated off the I/O thread: {badm[:3]}"))
        if track.get("accepted_after_teardown"):
            v.append(("output-accepted-after-teardown", f"write_soon() accepted {track['accepted_after_teardown']} bytes of application output for a connection that was already torn down (no ClientDisconnected)"))
        # nothing reordered, duplicated or corrupted
        out = bytes(sock.out)
        want = ref[0]
        if not want.startswith(out):
            i = c04._first_diff(out, want)
            v.append(("stream-corrupted", f"client log is not a prefix of the expected stream: at {i} got {out[max(i-20,0):i+40]!r} want {want[max(i-20,0):i+40]!r}"))
        disconnected = sock.reset is not None or sock.eof
        if disconnected and not parked:
            enters = [e for e in app.events if e[0] == "enter"]
            exits = [e for e in app.events if e[0] == "exit"]
            if len(exits) != len(enters):
                v.append(("iterable-not-closed", f"{len(enters)} invocations, {len(exits)} close() calls after the client disconnected"))
        return v

    def outcome(self, ctx, S, W):
        ch, sock = ctx["ch"], ctx["sock"]
        return (len(sock.out), sock.closed, bool(ch.outbuf_lock.waiters), ctx["track"]["max_total"] > ctx["srv"].adj.outbuf_high_watermark)


def scenarios(tier):
    q = tier == "quick"
    one = c04.req(1).decode("latin-1")
    S = []
    def prog(w, k, cl=False):
        return {"/r1": dict(body=[chr(97 + i) * w for i in range(k)], cl=cl)}
    grid = []
    for wm in (0, 1, 8, 64):
        for sb in (1, 8, 100):
            grid.append((wm, sb))
    if q:
        grid = [(0, 1), (1, 1), (8, 1), (64, 1), (8, 100), (64, 8)]
    for wm, sb in grid:
        for w in sorted({max(wm - 1, 1), max(wm, 1), wm + 1}):
            if q and w != max(wm, 1):
                continue
            adj = dict(outbuf_high_watermark=wm, send_bytes=sb)
            # client drains in two steps then keeps reading
            S.append((f"wm={wm},sb={sb},w={w}:drain", dict(pre=one, workers=1, window=10, drains=[w + 5, None], adj=adj, programs=prog(w, 3)), 1))
            if not q or (wm, sb) in ((8, 1), (64, 8)):
                # client drains a little, then stalls
                S.append((f"wm={wm},sb={sb},w={w}:stall", dict(pre=one, workers=1, window=10, drains=[w + 5], adj=adj, programs=prog(w, 3)), 1))
            # client disconnects at some point
            S.append((f"wm={wm},sb={sb},w={w}:reset", dict(pre=one, workers=1, window=10, drains=[w + 5, "reset"], adj=adj, programs=prog(w, 3)), 1 if q else 2))
    # pending output between the watermark and send_bytes when the client starts reading again
    for wm, sb, win in ((8, 100, 60), (1, 100, 90), (64, 100, 60)):
        S.append((f"wm={wm},sb={sb},window={win}:drain", dict(pre=one, workers=1, window=win, drains=[None], adj=dict(outbuf_high_watermark=wm, send_bytes=sb), programs=prog(8, 3)), 1))
    # many writes much smaller than the mark (several buffer rotations while the client is slow)
    for wm, w, k, win in ((64, 8, 12, 150), (32, 4, 14, 130)):
        S.append((f"wm={wm},w={w}x{k},window={win}:drain", dict(pre=one, workers=1, window=win, drains=[20, None], adj=dict(outbuf_high_watermark=wm, send_bytes=1), programs=prog(w, k)), 1))
        S.append((f"wm={wm},w={w}x{k},window={win}:stall", dict(pre=one, workers=1, window=win, drains=[20], adj=dict(outbuf_high_watermark=wm, send_bytes=1), programs=prog(w, k)), 0 if q else 1))
    # a send error that is not a disconnect: the I/O thread closes through will_close, outside any flush
    S.append(("wm=8,sb=1,w=8:send-error", dict(pre=one, workers=1, window=10, drains=[13, None], fault_menu=[22, -1], fault_sites=["send"], adj=dict(outbuf_high_watermark=8, send_bytes=1), programs=prog(8, 3)), 2))
    S.append(("wm=64,sb=1,w=8:send-error", dict(pre=one, workers=1, window=10, drains=[None], fault_menu=[22, -1], fault_sites=["send"], adj=dict(outbuf_high_watermark=64, send_bytes=1), programs=prog(8, 4)), 1 if q else 2))
    # two buffers pending while the producer is parked: a flush that drains below the mark and then fails
    S.append(("wm=150,sb=1,w=8x5:send-error", dict(pre=one, workers=1, window=10, drains=[None], fault_menu=[22, -1], fault_sites=["send"], adj=dict(outbuf_high_watermark=150, send_bytes=1), programs=prog(8, 5)), 1 if q else 2))
    # a backlog above the mark is left when a request ends and the next one is already queued (lookahead)
    two = (c04.req(1) + c04.req(2)).decode("latin-1")
    for la in (1, 2):
        S.append((f"two-requests,la={la},wm=8:drain", dict(pre=two, workers=1, lookahead=la, window=10, drains=[30, None], adj=dict(outbuf_high_watermark=8, send_bytes=1),
                  programs={"/r1": dict(body=["a" * 8, "b" * 8], cl=True), "/r2": dict(body=["c" * 8], cl=True)}), 1 if q else 2))
    # ... and the backlog is exactly one write (the head of a body-less response): the pause happens in service(), not in write_soon()
    S.append(("two-requests,first=empty-body,la=1,wm=8:drain", dict(pre=two, workers=1, lookahead=1, window=10, drains=[30, None], adj=dict(outbuf_high_watermark=8, send_bytes=1),
              programs={"/r1": dict(body=[], cl=True), "/r2": dict(body=["c" * 8], cl=True)}), 1 if q else 2))
    # the application has written through write() and is still working when the client starts reading again
    S.append(("two-requests,first=write()-then-blocks,la=1,wm=8", dict(pre=two, workers=1, lookahead=1, window=10, segments=[("@drain:None", None), ("@release:go", None)], adj=dict(outbuf_high_watermark=8, send_bytes=1),
              programs={"/r1": dict(body=[""], cl=True, write_first=True, block="go"), "/r2": dict(body=["c" * 8], cl=True)}), 2))
    S.append(("wm=8,sb=1,w=8:drain,poll2", dict(pre=one, workers=1, window=10, drains=[13, None], poll2=True, adj=dict(outbuf_high_watermark=8, send_bytes=1), programs=prog(8, 3)), 1 if q else 2))
    S.append(("wm=8,sb=1,w=8:eof", dict(pre=one, workers=1, window=10, drains=[13, "eof"], adj=dict(outbuf_high_watermark=8, send_bytes=1), programs=prog(8, 3)), 1 if q else 2))
    S.append(("wm=8,sb=1,w=8:drain,bound2", dict(pre=one, workers=1, window=10, drains=[13, None], adj=dict(outbuf_high_watermark=8, send_bytes=1), programs=prog(8, 2)), 2))
    return S


def main(tier, only=None):
    run = Run("C12", tier)
    run.cov["rule"] = c04.RULE + "; pending output is sampled at every scheduling point"
    run.assume(*c04.ASSUME)
    for name, params, bound in scenarios(tier):
        if only and only not in name:
            continue
        explore.explore(Producer(**params), bound, run, part=name)
    return run.finish()


def replay(rep):
    r = explore.replay(rep)
    return 1 if r.viol else 0
