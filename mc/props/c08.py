"""C08  Applications cannot split or inject into the response head.

E5: every string up to length n over a hostile alphabet, in the status, in a
header name and in a header value, on each path by which application strings
reach the wire; plus non-string objects and hop-by-hop names in every letter
case.  The response head is split at CRLF and must consist of the status line,
exactly one line per application field and server fields from the fixed set -
or be a 500 built from server strings only.
"""
import io
import itertools
import multiprocessing as mp
import random
import re
import sys

from .. import common, seq
from ..evidence import Run

ALPHA = ["a", ":", " ", "\r", "\n", "\x00", "\x0b", "\x85", "\xe9", "\u20ac", "\xa0"]
PATHS = ["first", "recall", "mutated", "mutated-inner", "write", "filewrapper", "error", "swallow", "recall-swallow"]
HOP = ["connection", "keep-alive", "proxy-authenticate", "proxy-authorization", "te", "trailer", "transfer-encoding", "upgrade"]
SERVER_LINE = {
    b"date": re.compile(rb"[A-Z][a-z]{2}, \d\d [A-Z][a-z]{2} \d{4} \d\d:\d\d:\d\d GMT\Z"),
    b"server": re.compile(rb"waitress\Z"),
    b"via": re.compile(rb"waitress\Z"),
    b"connection": re.compile(rb"(close|Keep-Alive)\Z"),
    b"content-length": re.compile(rb"\d+\Z"),
    b"transfer-encoding": re.compile(rb"chunked\Z"),
}
ERR_LINES = {b"content-type": re.compile(rb"text/plain; charset=utf-8\Z")}
_env = {}


def get_env():
    e = _env.get(0)
    if e is None:
        e = seq.Env(None)
        _env[0] = e
    return e


def make_app(case):
    status, name, value, path = case["status"], case["name"], case["value"], case["path"]

    def app(environ, start_response):
        hostile = [("X-Clean", "1"), (name, value)]
        if path == "first":
            start_response(status, hostile)
            return [b"x"]
        if path == "recall":
            start_response("200 OK", [("X-Old", "o")])
            try:
                raise RuntimeError("superseded")
            except RuntimeError:
                start_response(status, hostile, sys.exc_info())
            return [b"x"]
        if path == "mutated":
            hl = [("X-Clean", "1")]
            start_response(status, hl)
            hl.append((name, value))
            return [b"x"]
        if path == "mutated-inner":
            # header pairs given as (mutable) lists and changed after the call
            pair = ["X-Late", "ok"]
            start_response(status, [["X-Clean", "1"], pair])
            pair[0], pair[1] = name, value
            return [b"x"]
        if path == "write":
            w = start_response(status, hostile)
            w(b"x")
            return []
        if path == "filewrapper":
            start_response(status, hostile)
            return environ["wsgi.file_wrapper"](io.BytesIO(b"x"))
        if path == "error":
            start_response(status, hostile)
            raise RuntimeError("application failure after start_response")
        if path == "swallow":
            # the application (or a middleware) catches whatever start_response raises and carries on
            try:
                start_response(status, hostile)
            except Exception:
                pass
            return [b"x"]
        if path == "recall-swallow":
            start_response("200 OK", [("X-Old", "o")])
            try:
                raise RuntimeError("superseded")
            except RuntimeError:
                try:
                    start_response(status, hostile, sys.exc_info())
                except Exception:
                    pass
            return [b"x"]
        raise ValueError(path)

    return app


def must_refuse(case):
    """CR/LF anywhere, non-strings, hop-by-hop names must take the 500 branch."""
    for x in (case["status"], case["name"], case["value"]):
        if not isinstance(x, str):
            return True
        if "\r" in x or "\n" in x:
            return True
    if case["name"].lower() in HOP:
        return True
    return False


def lat(s):
    return s.encode("latin-1")


def judge(case, wire, closed, escaped, worker_exc):
    v = []
    for e in escaped:
        v.append((f"escaped:{e[1]}", str(e)))
    for e in worker_exc:
        v.append((f"worker-exc:{type(e).__name__}", repr(e)))
    end = wire.find(b"\r\n\r\n")
    if end < 0:
        v.append(("no-head", f"no complete response head on the wire: {wire[:120]!r}"))
        return v, "none"
    head = wire[:end]
    lines = head.split(b"\r\n")
    for ln in lines:
        if b"\r" in ln or b"\n" in ln:
            v.append(("bare-cr-lf-in-head", f"line {ln!r} contains CR or LF"))
    V = b"HTTP/1.0 " if case.get("http10") else b"HTTP/1.1 "
    is500 = lines[0] == V + b"500 Internal Server Error"
    path = case["path"]
    refuse = must_refuse(case)
    if is500:
        # built from server strings only
        for ln in lines[1:]:
            k, _, val = ln.partition(b": ")
            rx = SERVER_LINE.get(k.lower()) or ERR_LINES.get(k.lower())
            if rx is None or not rx.match(val):
                v.append(("500-with-foreign-line", f"line {ln!r} in a 500 head"))
        if not closed:
            v.append(("500-not-closed", "connection open after the 500"))
        return v, "500"
    if refuse and path in ("swallow", "recall-swallow"):
        # the refused strings must never be used: the head is the superseded
        # clean response (recall) or whatever the server builds without them
        hostile = [x for x in (case["status"], case["name"], case["value"]) if isinstance(x, str) and ("\r" in x or "\n" in x)]
        for ln in lines:
            if b"\r" in ln or b"\n" in ln:
                break
        allowed_status = [V + b"200 OK", V + b"500 Internal Server Error"]
        st = case["status"]
        if isinstance(st, str) and "\r" not in st and "\n" not in st:
            try:
                allowed_status.append(V + st.encode("latin-1"))  # accepted before a later argument was refused
            except UnicodeEncodeError:
                pass
        if lines[0] not in allowed_status:
            v.append(("refused-status-emitted:" + path, f"after start_response refused its arguments the head starts with {lines[0]!r}; head={head!r}"))
        for ln in lines[1:]:
            k, sep, val = ln.partition(b": ")
            rx = SERVER_LINE.get(k.lower())
            if ln in (b"X-Old: o",) and path == "recall-swallow":
                continue
            if is500 and ERR_LINES.get(k.lower()) and ERR_LINES[k.lower()].match(val):
                continue
            if not sep or rx is None or not rx.match(val):
                v.append(("refused-field-emitted:" + path, f"line {ln!r} emitted although start_response refused the call; head={head!r}"))
        return v, "accepted"
    if path == "mutated-inner":
        # what was validated is what must be sent: the pair as it was at the time of the call
        want0 = V + lat(case["status"]) if isinstance(case["status"], str) and "\r" not in case["status"] and "\n" not in case["status"] else None
        try:
            ok0 = want0 is not None and lines[0] == want0
        except UnicodeEncodeError:
            ok0 = False
        if not ok0:
            v.append(("status-line", f"status line {lines[0]!r}"))
        rest = [ln for ln in lines[1:]]
        for need in (b"X-Clean: 1", b"X-Late: ok"):
            if need in rest:
                rest.remove(need)
            else:
                v.append(("validated-field-replaced:mutated-inner", f"field {need!r} (as validated by start_response) is not on the wire; head={head!r}"))
        for ln in rest:
            k, sep, val = ln.partition(b": ")
            rx = SERVER_LINE.get(k.lower())
            if not sep or rx is None or not rx.match(val):
                v.append(("unvalidated-field-emitted:mutated-inner", f"line {ln!r} was never seen by start_response; head={head!r}"))
        return v, "accepted"
    if refuse and path != "mutated":
        v.append(("hostile-accepted:" + ("crlf" if any(isinstance(x, str) and ("\r" in x or "\n" in x) for x in (case["status"], case["name"], case["value"])) else "nonstr-or-hop"),
                  f"status/header that must be refused was emitted: head={head!r}"))
        return v, "accepted"
    if path == "error":
        v.append(("error-path-not-500", f"application failed before output but the head is {lines[0]!r}"))
        return v, "accepted"
    try:
        want0 = V + lat(case["status"])
    except (UnicodeEncodeError, AttributeError):
        v.append(("unencodable-status-emitted", f"head={head!r}"))
        return v, "accepted"
    if lines[0] != want0 and not (path in ("swallow", "recall-swallow") and lines[0] == V + b"200 OK"):
        v.append(("status-line", f"status line {lines[0]!r}, expected {want0!r}"))
    rest = list(lines[1:])
    app_fields = [("X-Clean", "1")]
    optional = []
    if path == "recall-swallow":
        pass
    if path == "mutated":
        optional.append((case["name"], case["value"]))
    elif path in ("swallow", "recall-swallow"):
        # start_response may have raised for a reason other than the listed ones (e.g. a
        # Content-Length that is not a number): the fields are then legitimately absent
        optional = app_fields + [(case["name"], case["value"])]
        app_fields = []
        if path == "recall-swallow":
            optional.append(("X-Old", "o"))
    else:
        app_fields.append((case["name"], case["value"]))
    for fields, required in ((app_fields, True), (optional, False)):
        for name, value in fields:
            try:
                n, val = lat(name), lat(value)
            except (UnicodeEncodeError, AttributeError):
                if required:
                    v.append(("unencodable-field-emitted", f"head={head!r}"))
                continue
            hit = None
            for ln in rest:
                if ln[: len(n)].decode("latin-1").lower() == name.lower() and ln[len(n) :] == b": " + val:
                    hit = ln
                    break
            if hit is not None:
                rest.remove(hit)
                if not required and must_refuse(case):
                    v.append(("hostile-accepted:mutated", f"header appended after the call was emitted: {hit!r}"))
            elif required:
                if n.lower() == b"content-length" and case.get("place") != "cl-value":
                    continue
                v.append(("app-field-missing", f"field {name!r}: {value!r} not found as one line; head={head!r}"))
    for ln in rest:
        k, sep, val = ln.partition(b": ")
        rx = SERVER_LINE.get(k.lower())
        if not sep or rx is None or not rx.match(val):
            v.append(("foreign-line", f"line {ln!r} is neither an application field nor a server field; head={head!r}"))
    return v, "accepted"


def run_case(case):
    env = get_env()
    env.activate()
    env.app = make_app(case)
    del env.escaped[:]
    del env.disp.worker_exc[:]
    c = env.connect()
    if case.get("http10"):
        c.send(b"GET / HTTP/1.0\r\nHost: h\r\nConnection: keep-alive\r\n\r\n")
    else:
        c.send(b"GET / HTTP/1.1\r\nHost: h\r\n\r\n")
    wire, closed = c.wire, c.closed
    esc, wex = list(env.escaped), list(env.disp.worker_exc)
    if not c.closed and c.ch is not None:
        c.ch.handle_close()
    return judge(case, wire, closed, esc, wex)


def strings(n):
    for L in range(0, n + 1):
        for t in itertools.product(ALPHA, repeat=L):
            yield "".join(t)


def cases(tier):
    n = 4 if tier == "quick" else 5
    # HTTP/1.0 keep-alive requests take a different branch of the header builder
    for s in strings(3):
        for path in ("first", "write", "error", "swallow"):
            yield dict(status="200 OK" + s, name="X-H", value="v", path=path, place="status", http10=True)
            yield dict(status="200 OK", name="X" + s, value="v", path=path, place="name", http10=True)
            yield dict(status="200 OK", name="X-H", value="v" + s + "w", path=path, place="value-inner", http10=True)
    # the application's Content-Length is parsed as a number before it is written out
    for s in strings(3):
        for path in ("first", "recall", "write", "swallow"):
            for val in ("1" + s, s + "1", "1" + s + "0"):
                if val != "1":
                    yield dict(status="200 OK", name="Content-Length", value=val, path=path, place="cl-value")
    for s in strings(n):
        for path in PATHS:
            yield dict(status="200 OK" + s, name="X-H", value="v", path=path, place="status")
            if s:
                yield dict(status=s, name="X-H", value="v", path=path, place="status-whole")
            yield dict(status="200 OK", name="X" + s, value="v", path=path, place="name")
            yield dict(status="200 OK", name=s, value="v", path=path, place="name-whole")
            yield dict(status="200 OK", name="X-H", value=s, path=path, place="value")
            yield dict(status="200 OK", name="X-H", value="v" + s + "w", path=path, place="value-inner")
    nonstr = [b"bytes", 5, None, ("t",), 1.5, ["l"]]
    for o in nonstr:
        for path in PATHS:
            yield dict(status=o, name="X-H", value="v", path=path, place="nonstr-status")
            yield dict(status="200 OK", name=o, value="v", path=path, place="nonstr-name")
            yield dict(status="200 OK", name="X-H", value=o, path=path, place="nonstr-value")
    for h in HOP:
        variants = {h, h.upper(), h.title(), h.capitalize(), h.swapcase()}
        # every letter-case variant of the short names, a slice for long ones
        if len(h) <= 10 or tier == "thorough":
            letters = [(c.lower(), c.upper()) if c.isalpha() else (c,) for c in h]
            if len(h) <= 10:
                variants |= {"".join(t) for t in itertools.product(*letters)}
        for name in sorted(variants):
            for path in PATHS:
                yield dict(status="200 OK", name=name, value="x", path=path, place="hop-by-hop")


def _batch(items):
    out = []
    classes = set()
    for case in items:
        v, outcome = run_case(case)
        classes.add((case["place"], case["path"], outcome, must_refuse(case), bool(case.get("http10"))))
        for key, what in v:
            out.append((key, what, case))
    return len(items), classes, out


def main(tier, only=None):
    run = Run("C08", tier)
    rnd = random.Random(common.SEED)
    n = 4 if tier == "quick" else 5
    run.cov["rule"] = (
        f"all strings of length <= {n} over {ALPHA!r} placed in the status (appended / whole), a header name (appended / whole) and a header value (whole / inner), "
        "non-str objects in each place, hop-by-hop names in every letter case, on 6 paths (first start_response, exc_info re-call, list mutated after the call, write(), file_wrapper, failure after start_response); "
        "distinct_nontrivial = distinct (place, path, outcome, must-refuse) classes"
    )
    run.assume("HTTP/1.1 GET on a fresh connection; default adjustments (ident 'waitress')")
    items = list(cases(tier))
    if only:
        items = [c for c in items if only in (c["place"], c["path"])]
    rnd.shuffle(items)
    batches = [items[i : i + 500] for i in range(0, len(items), 500)]
    ctx = mp.get_context("fork")
    total = 0
    classes = set()
    viol = []
    with ctx.Pool(common.NPROC) as pool:
        for k, cl, out in pool.imap_unordered(_batch, batches):
            total += k
            classes |= cl
            viol += out
    run.add(states=len(classes), transitions=total, traces_validated_against_impl=total, evaluations=total, distinct_nontrivial=len(classes))
    run.part("cases", total=total)
    for c in items[:3]:
        run.sample(c)
    seen = {}
    for key, what, case in viol:
        seen.setdefault(f"{key}:{case['path']}", []).append((what, case))
    for k, lst in sorted(seen.items()):
        lst.sort(key=lambda x: len(repr(x[1])))
        what, case = lst[0]
        run.violation(k, f"{what} | case={case!r} [{len(lst)} cases]", {k2: (v if isinstance(v, (str, int, float, type(None))) else repr(v)) for k2, v in case.items()})
    return run.finish()


def replay(rep):
    v, outcome = run_case(rep)
    print("outcome:", outcome)
    for k, w in v:
        print("VIOLATION-DETAIL", k, w)
    return 1 if v else 0
