"""C17  Buffers are faithful byte queues across all representation changes.

E2: breadth-first search over operation histories on the real
OverflowableBuffer (real BytesIO / real TemporaryFile), merged on the exact
concrete state, each step compared with a reference bytearray queue; the same
for ReadOnlyFileBasedBuffer.
"""
import hashlib
import io
import itertools
import multiprocessing as mp
import random

from .. import common
from ..evidence import Run


def pattern(start, n):
    """bytes start..start+n of one fixed global byte sequence"""
    return bytes(((i * 7 + 3) % 251) for i in range(start, start + n))


_PAT = pattern(0, 70000)


def pat(start, n):
    if start + n <= len(_PAT):
        return _PAT[start : start + n]
    return pattern(start, n)


def alphabet(overflow):
    from waitress import buffers

    L = buffers.STRBUF_LIMIT
    sizes = sorted({1, 5, L - 1, L, L + 1} | {x for x in (overflow - 1, overflow, overflow + 1) if 0 < x <= 20001})
    ops = [("append", k) for k in sizes]
    ops += [("get", n) for n in (-1, 1, 5, L, 30000)]
    ops += [("getskip", n) for n in (-1, 1, 5, L)]
    ops += [("skip", n, ap) for n in ("all", "all-1", "all+1", 1, 5, L) for ap in (True, False)]
    ops += [("len",), ("getfile",), ("bool",)]
    return ops


def apply(buf, q, state, op):
    """Apply op to the real buffer and to the reference queue q (bytearray).
    state = [total_appended].  Returns None or a violation string."""
    kind = op[0]
    if kind == "append":
        data = pat(state[0], op[1])
        state[0] += op[1]
        buf.append(data)
        q += data
    elif kind == "get":
        n = op[1]
        r = buf.get(n)
        if bytes(q[: len(r)]) != r:
            return f"get({n}) returned bytes that are not a prefix of the queue (len {len(r)})"
        want = len(q) if n < 0 else min(n, len(q))
        if len(r) < want:
            return f"get({n}) returned {len(r)} bytes, queue holds {len(q)}"
    elif kind == "getskip":
        n = op[1]
        r = buf.get(n, True)
        if bytes(q[: len(r)]) != r:
            return f"get({n}, skip) returned bytes that are not a prefix of the queue"
        want = len(q) if n < 0 else min(n, len(q))
        if len(r) < want:
            return f"get({n}, skip) returned {len(r)} bytes, queue holds {len(q)}"
        del q[: len(r)]
    elif kind == "skip":
        n, ap = op[1], op[2]
        if n == "all":
            n = len(q)
        elif n == "all-1":
            n = max(len(q) - 1, 0)
        elif n == "all+1":
            n = len(q) + 1
        try:
            buf.skip(n, ap)
        except ValueError:
            if n <= len(q):
                return f"skip({n}) refused although {len(q)} bytes are queued"
            return None
        if n > len(q):
            return f"skip({n}) accepted although only {len(q)} bytes are queued"
        del q[:n]
    elif kind == "len":
        pass
    elif kind == "bool":
        if bool(buf) != (len(q) > 0):
            return f"bool() is {bool(buf)} with {len(q)} bytes queued"
    elif kind == "getfile":
        f = buf.getfile()
        pos = f.tell()
        data = f.read()
        f.seek(pos)
        if data != bytes(q):
            return f"getfile().read() gave {len(data)} bytes, queue holds {len(q)} (equal prefix {_common(data, q)})"
    if buf.__len__() != len(q):
        return f"len() is {buf.__len__()} after {op}, queue holds {len(q)}"
    return None


def _common(a, b):
    n = 0
    for x, y in zip(a, b):
        if x != y:
            break
        n += 1
    return n


def concrete(buf):
    """exact concrete state of an OverflowableBuffer"""
    b = buf.buf
    if b is None:
        return ("str", buf.strbuf, buf.overflowed)
    f = b.file
    pos = f.tell()
    f.seek(0)
    content = f.read()
    f.seek(pos)
    return (type(b).__name__, hashlib.blake2b(content, digest_size=12).digest(), len(content), pos, b.remain, buf.overflowed, buf.strbuf)


def run_history(overflow, hist):
    """Replay hist on a fresh buffer.  Returns (violation|None, key, qlen)."""
    from waitress import buffers

    buf = buffers.OverflowableBuffer(overflow)
    q = bytearray()
    st = [0]
    try:
        for i, op in enumerate(hist):
            v = apply(buf, q, st, op)
            if v is not None:
                return v, None, i
        # drain check: everything still queued must come out once, in order
        return None, (concrete(buf), st[0]), len(q)
    finally:
        buf.close()


def drain(overflow, hist):
    from waitress import buffers

    buf = buffers.OverflowableBuffer(overflow)
    q = bytearray()
    st = [0]
    try:
        for op in hist:
            apply(buf, q, st, op)
        out = bytearray()
        for _ in range(len(q) + 3):
            r = buf.get(7000)
            if not r:
                break
            out += r[:7000]
            buf.skip(min(len(r), 7000), True)
        if bytes(out) != bytes(q):
            return f"draining yields {len(out)} bytes, queue holds {len(q)} (equal prefix {_common(out, q)})"
        return None
    finally:
        buf.close()


def _expand(args):
    overflow, hists, ops = args
    out = []
    for h in hists:
        for op in ops:
            hh = h + (op,)
            v, key, extra = run_history(overflow, hh)
            if v is None:
                d = drain(overflow, hh)
                if d is not None:
                    v = d
            out.append((hh, v, key))
    return out


def bfs(run, overflow, depth, pool, rnd):
    ops = alphabet(overflow)
    seen = {}
    frontier = [()]
    trans = 0
    for d in range(depth):
        rnd.shuffle(frontier)
        chunks = [frontier[i : i + 8] for i in range(0, len(frontier), 8)]
        nxt = []
        for res in pool.imap_unordered(_expand, [(overflow, c, ops) for c in chunks]):
            for hh, v, key in res:
                trans += 1
                if v is not None:
                    op = hh[-1]
                    run.violation(f"overflowable:{op[0]}", f"overflow={overflow} history={list(hh)}: {v}", {"kind": "overflowable", "overflow": overflow, "history": [list(o) for o in hh]})
                    continue
                if key not in seen:
                    seen[key] = hh
                    nxt.append(hh)
        frontier = nxt
    run.add(states=len(seen), transitions=trans, traces_validated_against_impl=trans, evaluations=trans, distinct_nontrivial=len(seen))
    run.part(f"overflowable[overflow={overflow}]", depth=depth, alphabet=len(ops), states=len(seen), transitions=trans)
    if seen:
        k = list(seen.values())
        run.sample({"overflow": overflow, "history": [list(o) for o in k[len(k) // 2]]})
    return seen


# ---------------------------------------------------------------------------
class NoSeek:
    def __init__(self, data):
        self._f = io.BytesIO(data)

    def read(self, n=-1):
        return self._f.read(n)

    def close(self):
        self._f.close()


def readonly(run):
    from waitress import buffers

    n = 0
    distinct = set()
    L = buffers.STRBUF_LIMIT
    for F in (0, 1, 5, 12, L + 3):
        content = pat(0, F)
        for start in (0, 2, 5):
            if start > F:
                continue
            avail = F - start
            for size in sorted({None, 0, 1, max(avail - 1, 0), avail, avail + 1, 50000}, key=lambda x: (-1 if x is None else x)):
                ops = [("get", -1), ("get", 1), ("get", 3), ("get", 40000), ("getskip", 1), ("getskip", 3), ("getskip", -1), ("skip", 1), ("skip", 2), ("skip", "all")]
                for hist in itertools.chain.from_iterable(itertools.product(ops, repeat=k) for k in range(0, 4)):
                    n += 1
                    f = io.BytesIO(content)
                    f.seek(start)
                    rb = buffers.ReadOnlyFileBasedBuffer(f)
                    got = rb.prepare(size)
                    want = avail if size is None else min(avail, size)
                    rep = {"kind": "readonly", "F": F, "start": start, "size": size, "history": [list(o) for o in hist]}
                    if got != want or rb.__len__() != want:
                        run.violation("readonly:prepare", f"prepare({size}) on {avail} available bytes gave {got}", rep)
                        break
                    q = bytearray(content[start : start + want])
                    consumed = 0
                    bad = None
                    for op in hist:
                        if op[0] == "get":
                            r = rb.get(op[1])
                            wl = len(q) if op[1] < 0 else min(op[1], len(q))
                            if r != bytes(q[:wl]):
                                bad = f"get({op[1]}) returned {len(r)} bytes {r[:12]!r}, expected the first {wl} of the prepared range"
                        elif op[0] == "getskip":
                            r = rb.get(op[1], True)
                            wl = len(q) if op[1] < 0 else min(op[1], len(q))
                            if r != bytes(q[:wl]):
                                bad = f"get({op[1]}, skip) returned {len(r)} bytes, expected {wl}"
                            del q[: len(r)]
                            consumed += len(r)
                        else:
                            k = len(q) if op[1] == "all" else op[1]
                            try:
                                rb.skip(k, True)
                                if k > len(q):
                                    bad = f"skip({k}) accepted with {len(q)} bytes left"
                                del q[:k]
                                consumed += k
                            except ValueError:
                                if k <= len(q):
                                    bad = f"skip({k}) refused with {len(q)} bytes left"
                        if bad is None and rb.__len__() != len(q):
                            bad = f"len() is {rb.__len__()}, {len(q)} bytes of the prepared range are left"
                        if bad is None and f.tell() != start + consumed:
                            bad = f"file position {f.tell()}, expected start+consumed={start + consumed}"
                        if bad:
                            break
                    if bad:
                        run.violation(f"readonly:{op[0]}", f"F={F} start={start} prepare({size}) history={list(hist)}: {bad}", rep)
                    distinct.add((F, start, size, len(q), consumed))
    # non-seekable wrapped file: iteration yields the content exactly once
    for F in (0, 1, 5, 70000):
        for bs in (1, 3, 32768):
            if F * 1.0 / bs > 100:
                continue
            n += 1
            content = pat(0, F)
            rb = buffers.ReadOnlyFileBasedBuffer(NoSeek(content), bs)
            if rb.prepare(None) != 0:
                run.violation("readonly:noseek-prepare", f"prepare() on a non-seekable file returned non-zero", {"kind": "noseek", "F": F, "bs": bs})
            out = b"".join(rb)
            if out != content:
                run.violation("readonly:noseek-iter", f"iteration over non-seekable file of {F} bytes gave {len(out)}", {"kind": "noseek", "F": F, "bs": bs})
            distinct.add(("noseek", F, bs))
    run.add(states=len(distinct), transitions=n, traces_validated_against_impl=n, evaluations=n, distinct_nontrivial=len(distinct))
    run.part("readonly", histories=n, distinct_end_states=len(distinct))


def random_supplement(run, rnd, count):
    """Seeded random histories beyond the depth bound (never decides alone:
    reported separately, and any violation is a real failing history)."""
    n = 0
    for i in range(count):
        overflow = rnd.choice((0, 1, 10, 8192, 20000))
        ops = alphabet(overflow)
        hist = tuple(rnd.choice(ops) for _ in range(rnd.randint(8, 14)))
        v, key, _ = run_history(overflow, hist)
        n += 1
        if v is None:
            v = drain(overflow, hist)
        if v is not None:
            run.violation(f"overflowable:{hist[-1][0]}", f"(random, beyond bound) overflow={overflow} history={list(hist)}: {v}", {"kind": "overflowable", "overflow": overflow, "history": [list(o) for o in hist]})
    run.part("random-supplement", histories=n, note="seeded; non-deciding")


def _large_one(args):
    overflow, hist = args
    v, key, _ = run_history(overflow, hist)
    if v is None:
        v = drain(overflow, hist)
    return overflow, hist, v


def large_migrations(run, pool, tier):
    """Migrations that copy more than one COPY_BYTES piece (thresholds as large as the shipped defaults)."""
    from waitress import buffers

    C = buffers.COPY_BYTES
    work = []
    for overflow in (C + 1000, 2 * C + 1000, 524288, 1048576):
        for a1 in (C - 1, C, C + 1, 2 * C + 5):
            if a1 >= overflow:
                continue
            for consume in (None, ("getskip", 5), ("skip", C if a1 > C else 100, True), ("get", 7)):
                a2 = overflow - a1 + 1
                hist = [("append", 9000), ("append", a1 - 9000)]  # first into the in-memory file, below the threshold
                if consume:
                    hist.append(consume)
                hist += [("append", a2), ("len",), ("getfile",)]
                work.append((overflow, tuple(hist)))
                if tier == "thorough":
                    work.append((overflow, tuple(hist + [("getskip", C + 3), ("append", 5), ("getfile",)])))
    n = 0
    for overflow, hist, v in pool.imap(_large_one, work):
        n += 1
        if v is not None:
            run.violation("overflowable:large-migration", f"overflow={overflow} history={list(hist)}: {v}", {"kind": "overflowable", "overflow": overflow, "history": [list(o) for o in hist]})
    run.add(states=n, transitions=sum(len(h) for _, h in work), traces_validated_against_impl=n, evaluations=n, distinct_nontrivial=n)
    run.part("overflowable[large migrations]", histories=n, copy_bytes=C)


def main(tier, only=None):
    run = Run("C17", tier)
    rnd = random.Random(common.SEED)
    depth = 5 if tier == "quick" else 7
    run.cov["rule"] = (
        "E2 BFS over histories of append/get/get+skip/skip/len/bool/getfile on the real OverflowableBuffer, sizes around STRBUF_LIMIT and the overflow threshold; "
        "states merged on the exact concrete state (representation, file content digest, file position, remain, strbuf); every transition compared with a reference bytearray queue "
        "and followed by a full drain; plus histories whose migration to the temporary file copies more than one COPY_BYTES piece (thresholds up to the shipped defaults); distinct_nontrivial = distinct concrete states; ReadOnlyFileBasedBuffer: all histories up to length 3 over prepare sizes/file sizes/start offsets"
    )
    run.assume("prune() is outside the quantifier (no server path calls it)", "real TemporaryFile and BytesIO are used; the OS file system is trusted")
    ctx = mp.get_context("fork")
    with ctx.Pool(common.NPROC) as pool:
        for overflow in (0, 1, 10, 8192, 20000):
            if only and str(overflow) != only:
                continue
            bfs(run, overflow, depth, pool, rnd)
        if not only:
            large_migrations(run, pool, tier)
    readonly(run)
    random_supplement(run, rnd, 300 if tier == "quick" else 3000)
    run.cov["depth"] = depth
    return run.finish()


def replay(rep):
    if rep["kind"] == "overflowable":
        hist = tuple(tuple(o) for o in rep["history"])
        v, key, _ = run_history(rep["overflow"], hist)
        if v is None:
            v = drain(rep["overflow"], hist)
        print("history:", hist)
        print("result:", v)
        return 1 if v else 0
    run = Run("C17", "quick")
    readonly(run)
    return 1 if run.violations else 0
