"""C04  Pipelined requests: in order, exactly once, never mixed, under every schedule.

E1: the real HTTPChannel / task / dispatcher / wasyncore loop on real threads
under the controlled scheduler.  Every source line of HTTPChannel and of the
dispatcher, every lock / condition / socket / pipe / select operation is a
scheduling point; the socket's send window is an environment choice.
"""
from .. import chan, explore
from ..evidence import Run


def req(i, method="GET", extra=(), body=b"", version="1.1"):
    lines = [f"{method} /r{i} HTTP/{version}", "Host: h", f"X-Id: {i}"] + list(extra)
    if body and not any(x.lower().startswith("content-length") for x in extra):
        lines.append(f"Content-Length: {len(body)}")
    return ("\r\n".join(lines) + "\r\n\r\n").encode() + body


class Pipe(chan.ChannelScenario):
    """One connection.  params:
    pre: bytes fed through channel.received() before the threads start
    segments: list of (bytes, guard) delivered later by the environment
              guard: None | "after100" | "eof" (the segment is an EOF)
    workers, lookahead, send_alts, poll2, bodies: {path: [chunks]}, adj: extra adjustments
    """

    name = "pipe"

    def __init__(self, **params):
        super().__init__(**params)
        # (must be known before the first execution: monitored() is asked before configure())
        if params.get("monitor_buffers"):
            self.monitor_extra = tuple(self.monitor_extra) + ("buffers",)

    def configure(self, S):
        p = self.params
        S.send_alts = tuple(p.get("send_alts") or ())
        if p.get("fault_menu"):
            sites = set(p.get("fault_sites", ["send"]))
            S.fault_menu = tuple(p["fault_menu"])
            S.max_faults = p.get("max_faults", 1)
            S.fault_sites = lambda sock, op: sock.name == "c1" and op in sites

    def programs(self):
        progs = {"*": dict(body=[b"ok"])}
        for k, v in (self.params.get("programs") or {}).items():
            d = dict(v)
            if "body" in d:
                d["body"] = [x.encode("latin-1") if isinstance(x, str) else x for x in d["body"]]
            progs[k] = d
        return progs

    def adj_kw(self):
        kw = dict(channel_request_lookahead=self.params.get("lookahead", 0))
        kw.update(self.params.get("adj") or {})
        return kw

    def stream(self):
        p = self.params
        s = p["pre"].encode("latin-1") if isinstance(p["pre"], str) else p["pre"]
        if p.get("inq"):
            s += p["inq"].encode("latin-1") if isinstance(p["inq"], str) else p["inq"]
        for seg, guard in p.get("segments", []):
            if guard != "eof" and not (isinstance(seg, str) and seg.startswith("@")):
                s += seg.encode("latin-1") if isinstance(seg, str) else seg
        return s

    def build(self, S, W):
        p = self.params
        flags = {}
        app = chan.App(S, self.programs(), flags)
        ref = chan.reference_wire(self.name, self.adj_kw(), self.programs(), self.stream())
        srv, m, listener, disp = self.make_server(S, W, app, self.adj_kw(), p.get("workers", 1))
        ch, sock = self.make_channel(W, srv, m, "c1")
        pre = p["pre"].encode("latin-1") if isinstance(p["pre"], str) else p["pre"]
        if pre:
            ch.received(pre)
        for seg, guard in p.get("segments", []):
            data = seg.encode("latin-1") if isinstance(seg, str) else seg
            if guard == "after100":
                g = lambda sock=sock: b"100 Continue" in sock.out
            else:
                g = None
            if isinstance(seg, str) and seg.startswith("@release:"):
                act = lambda f=seg.split(":", 1)[1]: flags.__setitem__(f, True)
            elif isinstance(seg, str) and seg.startswith("@drain:"):
                act = lambda sock=sock, n=seg.split(":", 1)[1]: sock.client_drain(None if n == "None" else int(n))
            elif isinstance(seg, str) and seg.startswith("@clock:"):
                act = lambda d=float(seg.split(":", 1)[1]): setattr(W, "now", W.now + d)
            elif guard == "eof":
                act = lambda sock=sock: sock.client_eof()
            else:
                act = lambda sock=sock, data=data: sock.client_send(data)
            S.env_events.append((g, act, f"seg:{len(data)}"))
        if p.get("inq"):
            sock.client_send(p["inq"].encode("latin-1") if isinstance(p["inq"], str) else p["inq"])
        if "window" in p:
            sock.window = p["window"]
        for dr in p.get("drains", []):
            if dr == "reset":
                S.env_events.append((None, lambda sock=sock: sock.client_reset(), "reset"))
            elif dr == "eof":
                S.env_events.append((None, lambda sock=sock: sock.client_eof(), "eof"))
            else:
                S.env_events.append((None, lambda sock=sock, dr=dr: sock.client_drain(dr), f"drain:{dr}"))
        # bookkeeping for C12: pending output and the size of single writes
        track = dict(max_total=0, max_write=0, worst=None)
        orig_ws = ch.write_soon

        def write_soon(data):
            n = len(data)
            if n > track["max_write"]:
                track["max_write"] = n
            dead = ch.socket is None
            r = orig_ws(data)
            if dead and n:
                track["accepted_after_teardown"] = track.get("accepted_after_teardown", 0) + n
            # the producer waits until the backlog is at or below the mark, then
            # appends: right after a write at most mark + this write is pending
            t = ch.total_outbufs_len
            if t > srv.adj.outbuf_high_watermark + n and track["worst"] is None:
                track["worst"] = (t, srv.adj.outbuf_high_watermark, n)
            return r

        ch.write_soon = write_soon
        for flag in p.get("release", []):
            S.env_events.append((None, lambda f=flag: flags.__setitem__(f, True), f"release:{flag}"))
        self.start_io(S, srv, m, p.get("poll2", False))
        wm = srv.adj.outbuf_high_watermark

        def fp():
            t = ch.total_outbufs_len
            if t > track["max_total"]:
                track["max_total"] = t
            if t > wm + track["max_write"] and track["worst"] is None:
                track["worst"] = (t, wm, track["max_write"])
            return (self.chan_fp(ch, sock), len(disp.queue), disp.stop_count, disp.active_count, len(app.events), tuple(sorted(flags)))

        S.fp = fp
        return dict(srv=srv, ch=ch, sock=sock, app=app, ref=ref, disp=disp, map=m, flags=flags, track=track)

    def oracle(self, ctx, S, W, reason):
        v = []
        app, sock, ref = ctx["app"], ctx["sock"], ctx["ref"]
        if reason != "quiescent":
            v.append(("end:" + reason, f"execution ended with {reason}"))
        for name, exc, tb in S.crashed:
            v.append((f"thread-died:{name.split('-')[0]}", f"{name} died: {exc}\n{tb[-400:]}"))
        for lvl, msg in W.log:
            if lvl in ("ERROR", "CRITICAL") and not msg.startswith("Socket error"):
                first = msg.strip().splitlines()[0][:80]
                last = msg.strip().splitlines()[-1][:120]
                v.append((f"logged-error:{first.split(' ')[0]}", f"server logged: {first} ... {last}"))
                break
        if app.max_active > 1:
            v.append(("concurrent-execution", f"{app.max_active} requests of one connection executed at the same time"))
        enters = [e[3] for e in app.events if e[0] == "enter"]
        want = [e[3] for e in ref[2]]
        if enters != want:
            if len(set(enters)) != len(enters):
                v.append(("executed-twice", f"requests executed {enters}, expected {want}"))
            elif sorted(enters) == sorted(want):
                v.append(("out-of-order", f"requests executed {enters}, expected {want}"))
            elif len(enters) < len(want):
                v.append(("not-executed", f"requests executed {enters}, expected {want}"))
            else:
                v.append(("extra-execution", f"requests executed {enters}, expected {want}"))
        out = bytes(sock.out)
        if out != ref[0]:
            # an interim 100 Continue depends on when the body arrives (C19
            # judges it); compare the final responses, byte for byte
            a, b = finals(out, len(want)), finals(ref[0], len(want))
            if a != b or a is None:
                i = _first_diff(out, ref[0])
                v.append((wire_diff_kind(out, ref[0], a, b), f"client received {len(out)} bytes, reference {len(ref[0])}: first difference at {i}: got {out[max(i - 20, 0):i + 60]!r} want {ref[0][max(i - 20, 0):i + 60]!r}"))
        if sock.closed != ref[1] and not v:
            v.append(("closure-differs", f"connection closed={sock.closed}, reference closed={ref[1]}"))
        return v

    def outcome(self, ctx, S, W):
        app, sock = ctx["app"], ctx["sock"]
        return (tuple(e[3] for e in app.events if e[0] == "enter"), len(sock.out), sock.closed, sock.send_calls)


def _first_diff(a, b):
    n = min(len(a), len(b))
    for i in range(n):
        if a[i] != b[i]:
            return i
    return n


def finals(wire, nreq):
    """final responses as (status, fields, body); None if the bytes are not a
    sequence of well-formed responses"""
    from .. import refhttp

    try:
        rs = refhttp.parse_responses(wire, [b"GET"] * (nreq + 2), closed=True)
    except refhttp.WireError:
        return None
    return [(r.status, tuple(r.fields), r.body, r.complete) for r in rs if r.status >= 200]


def wire_diff_kind(out, ref, a=None, b=None):
    if a is None:
        return "wire:not-a-response-sequence"
    if len(out) > len(ref) and out.startswith(ref):
        return "wire:extra-bytes"
    if ref.startswith(out):
        return "wire:missing-bytes"
    i = _first_diff(out, ref)
    # duplicated region?
    if len(out) > len(ref):
        return "wire:duplicated-or-interleaved"
    return "wire:corrupted"


BIG = "x" * 40


def scenarios(tier):
    """(name, params, bound)"""
    q = tier == "quick"
    S = []
    two = (req(1) + req(2)).decode("latin-1")
    for la in (0, 1, 2):
        S.append((f"P2[lookahead={la}]", dict(pre=two, workers=1, lookahead=la), 2 if (la == 0 or not q) else 1))
    S.append(("P2[send-window]", dict(pre=two, workers=1, lookahead=0, send_alts=["one", "zero"], programs={"/r1": dict(body=[BIG, BIG], cl=True)}), 1 if q else 2))
    S.append(("P2[chunked,send_bytes=50]", dict(pre=two, workers=1, lookahead=0, adj=dict(send_bytes=50), programs={"/r1": dict(body=[BIG, BIG], cl=False)}), 1 if q else 2))
    three = (req(1) + req(2)).decode("latin-1")
    S.append(("P3[2 workers,lookahead=1]", dict(pre=three, segments=[(req(3).decode("latin-1"), None)], workers=2, lookahead=1), 1 if q else 2))
    post = req(1, "POST", body=b"hello")
    S.append(("PB[body in 2nd segment]", dict(pre=post[:-3].decode("latin-1"), segments=[((post[-3:] + req(2)).decode("latin-1"), None)], workers=1, lookahead=0), 1 if q else 2))
    S.append(("PC[2nd closes]", dict(pre=(req(1) + req(2, extra=["Connection: close"]) + req(3)).decode("latin-1"), workers=1, lookahead=2), 1 if q else 2))
    exp_head = req(2, "POST", extra=["Expect: 100-continue", "Content-Length: 5"])
    S.append(("PE[expect after GET]", dict(pre=(req(1) + exp_head).decode("latin-1"), segments=[("hello", "after100")], workers=1, lookahead=0), 2))
    S.append(("PE[expect after GET,lookahead=1]", dict(pre=(req(1) + exp_head).decode("latin-1"), segments=[("hello", "after100")], workers=1, lookahead=1), 1 if q else 2))
    # stray empty lines between pipelined requests, several workers
    blank = (req(1) + b"\r\n\r\n" + req(2) + b"\r\n").decode("latin-1")
    S.append(("P2[blank lines between,2 workers]", dict(pre=blank, workers=2, lookahead=0), 1))
    S.append(("P2[blank lines between,2 workers,lookahead=2]", dict(pre=blank, workers=2, lookahead=2), 1))
    # output large enough to migrate through the buffer representations while partly sent
    S.append(("P2[migrating outbuf,slow client]", dict(pre=two, workers=1, lookahead=0, window=3000, drains=[4000, None], adj=dict(outbuf_overflow=12000),
              programs={"/r1": dict(body=["a" * 5000, "b" * 5000, "c" * 5000, "d" * 5000], cl=True)}), 1))
    # the last request of the pipeline is refused by the parser: its error response is one of the
    # responses that must arrive, whole and in order, before the connection is closed
    bad = b"GET /r2 HTTP/1.1\r\nHost: h\r\nContent-Length: x\r\nX-Id: 2\r\n\r\n"
    S.append(("PX[GET,malformed]", dict(pre=(req(1) + bad).decode("latin-1"), workers=1, lookahead=1), 1 if q else 2))
    S.append(("PX[malformed alone,via I/O thread]", dict(pre="", segments=[(bad.decode("latin-1"), None)], workers=1, lookahead=0), 2))
    if not q:
        S.append(("P2[poll2]", dict(pre=two, workers=1, lookahead=0, poll2=True), 2))
        S.append(("P2[buffers monitored]", dict(pre=two, workers=1, lookahead=0, monitor_buffers=True, send_alts=["one"]), 2))
    return S


RULE = (
    "E1: every execution with total deviation cost <= bound (pre-emption at any HTTPChannel / dispatcher source line or lock, condition, socket, pipe, select operation; "
    "non-default send window; early environment event: 1 each); evaluations = executions; distinct_nontrivial = distinct orderings of visible operations among executions with >= 1 deviation"
)
ASSUME = [
    "CPython GIL granularity: a source line without a Python-level call is atomic",
    "a lock/socket operation reached directly from a monitored source line shares that line's scheduling point",
    "non-preemptive switches (forced by blocking) other than to the lowest-numbered enabled thread cost 1 deviation",
    "the virtual environment of DESIGN.md section 3 stands for the OS",
]


def main(tier, only=None):
    run = Run("C04", tier)
    run.cov["rule"] = RULE
    run.assume(*ASSUME)
    for name, params, bound in scenarios(tier):
        if only and only not in name:
            continue
        explore.explore(Pipe(**params), bound, run, part=name)
    return run.finish()


def replay(rep):
    r = explore.replay(rep)
    return 1 if r.viol else 0
