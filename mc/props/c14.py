"""C14  Worker pool: every task runs exactly once or is cancelled exactly once.

E1 exploration of the real ThreadedTaskDispatcher under the controlled
scheduler: m submitter threads, n workers, an optional controller thread that
resizes the pool or shuts it down.  Every line of the dispatcher class and
every lock / condition operation is a scheduling point.
"""
from collections import deque

from .. import explore, sched
from ..evidence import Run


class LogDeque(deque):
    """The dispatcher's queue, recording the order of appends and pops."""

    def __init__(self, log):
        super().__init__()
        self.log = log

    def append(self, x):
        self.log.append(("put", x.tid))
        super().append(x)

    def popleft(self):
        x = super().popleft()
        self.log.append(("take", x.tid))
        return x

    def pop(self):
        x = super().pop()
        self.log.append(("take", x.tid))
        return x


class T:
    def __init__(self, ctx, tid):
        self.ctx, self.tid = ctx, tid

    def service(self):
        self.ctx["log"].append(("svc", self.tid))
        base = self.tid.rstrip("+!?^")
        if self.tid.endswith("^"):
            self.ctx["go"] = True
        if self.tid.endswith("?"):
            # a task that cannot finish before another queued task has run (e.g. an application waiting
            # for a second request): the pool must hand that one to an idle worker
            self.ctx["S"].block_until(lambda: self.ctx.get("go"), "task-wait")
        if self.tid.endswith("+"):
            self.ctx["d"].add_task(T(self.ctx, base + "f"))
            self.ctx["submitted"].append(base + "f")  # add_task has returned
        if self.tid.endswith("!"):
            raise SystemExit("task failure")

    def cancel(self):
        self.ctx["log"].append(("cancel", self.tid))

    def __repr__(self):
        return f"<T {self.tid}>"


class Pool(explore.Scenario):
    name = "pool"
    horizon = 4000

    def monitored(self):
        import waitress.task

        return sched.code_objects(waitress.task, ["ThreadedTaskDispatcher"])

    def build(self, S, W):
        import waitress.task

        p = self.params
        d = waitress.task.ThreadedTaskDispatcher()
        ctx = {"d": d, "log": [], "submitted": [], "ctl_done": [], "shutdown_started": None}
        d.queue = LogDeque(ctx["log"])
        d.set_thread_count(p["workers"])
        def spawn_ctl():
            ctl = p.get("ctl")
            if not ctl:
                return

            def run_ctl():
                for op in ctl:
                    if op[0] == "resize":
                        d.set_thread_count(op[1])
                    elif op[0] == "shutdown":
                        ctx["shutdown_started"] = len(ctx["log"])
                        ctx["pre_shutdown"] = list(ctx["submitted"])
                        r = d.shutdown(cancel_pending=op[1], timeout=5)
                        ctx["ctl_done"].append(("shutdown", r))

            S.spawn(run_ctl, (), "ctl")

        if p.get("ctl_first"):
            spawn_ctl()
        for k, ids in enumerate(p["submit"]):
            def sub(ids=ids):
                for tid in ids:
                    d.add_task(T(ctx, tid))
                    ctx["submitted"].append(tid)  # add_task has returned

            S.spawn(sub, (), f"sub{k}")
        if not p.get("ctl_first"):
            spawn_ctl()

        def fp():
            lk = d.lock
            return (len(d.queue), d.stop_count, d.active_count, len(d.threads), lk.owner.idx if lk.owner else None,
                    len(d.queue_cv.waiters), len(d.thread_exit_cv.waiters), len(ctx["log"]))

        S.fp = fp
        ctx["S"] = S
        return ctx

    def oracle(self, ctx, S, W, reason):
        p = self.params
        d = ctx["d"]
        log = ctx["log"]
        v = []
        if reason != "quiescent":
            v.append(("end:" + reason, f"execution ended with {reason}"))
        for name, exc, tb in S.crashed:
            v.append((f"thread-died:{name.split('-')[0]}", f"{name} died: {exc}"))
        puts = [t for k, t in log if k == "put"]
        takes = [t for k, t in log if k == "take"]
        if takes != puts[: len(takes)]:
            v.append(("order", f"tasks handed out {takes} but submitted {puts}"))
        svc = {}
        can = {}
        for k, t in log:
            if k == "svc":
                svc[t] = svc.get(t, 0) + 1
            elif k == "cancel":
                can[t] = can.get(t, 0) + 1
        ctl = p.get("ctl") or []
        shut = [op for op in ctl if op[0] == "shutdown"]
        for t in puts:
            n = svc.get(t, 0) + can.get(t, 0)
            if svc.get(t, 0) and can.get(t, 0):
                v.append(("both", f"task {t} was both run and cancelled"))
            elif n > 1:
                v.append(("duplicate", f"task {t} handled {n} times"))
            elif n == 0:
                still_queued = any(q.tid == t for q in d.queue)
                if not shut:
                    v.append(("lost", f"task {t} neither run nor cancelled (queued={still_queued})"))
                elif not still_queued:
                    v.append(("lost", f"task {t} vanished from the queue without running or being cancelled"))
                elif shut[0][1] and t in ctx.get("pre_shutdown", ()):
                    v.append(("not-cancelled", f"task {t} was queued before shutdown(cancel_pending=True) and is still queued"))
        workers = [t for t in S.threads if t.name.startswith("waitress-")]
        alive = [t for t in workers if t.state != "done"]
        want = p["workers"]
        for op in ctl:
            if op[0] == "resize":
                want = op[1]
            elif op[0] == "shutdown":
                want = 0
        if len(alive) != want:
            v.append(("worker-count", f"{len(alive)} live workers, requested {want}"))
        if d.stop_count != 0:
            v.append(("stop-count", f"stop_count={d.stop_count} at quiescence"))
        if len(d.threads) != want:
            v.append(("thread-set", f"dispatcher.threads={sorted(d.threads)} but {want} requested"))
        if shut:
            if not ctx["ctl_done"]:
                v.append(("shutdown-hung", "shutdown() did not return"))
            elif shut[0][1] and any(q.tid in ctx.get("pre_shutdown", ()) for q in d.queue):
                v.append(("queue-not-empty", "tasks submitted before a cancelling shutdown are still queued"))
        return v

    def outcome(self, ctx, S, W):
        return (tuple(ctx["log"]), tuple(ctx["ctl_done"]))


QUICK = [
    (dict(workers=1, submit=[["a", "b"]]), 2),
    (dict(workers=2, submit=[["a+", "b"]]), 2),
    (dict(workers=2, submit=[["a"], ["b!"]]), 2),
    (dict(workers=2, submit=[["a", "b"]], ctl=[["resize", 1]]), 2),
    (dict(workers=1, submit=[["a"]], ctl=[["resize", 3]]), 1),
    (dict(workers=2, submit=[["a", "b"]], ctl=[["shutdown", True]]), 2),
    (dict(workers=1, submit=[["a+"]], ctl=[["shutdown", False]]), 2),
    (dict(workers=3, submit=[["a"]], ctl=[["resize", 2], ["resize", 1]]), 1),
    (dict(workers=3, submit=[["a"]], ctl=[["resize", 2], ["shutdown", True]]), 1),
    (dict(workers=1, submit=[["a", "b"], ["c"]], ctl=[["shutdown", True]]), 2),
    (dict(workers=1, submit=[["a"], ["c"]], ctl=[["shutdown", True]], ctl_first=True), 2),
    (dict(workers=2, submit=[["a"]], ctl=[["resize", 1], ["resize", 2]]), 2),
    (dict(workers=2, submit=[["a"]], ctl=[["resize", 1], ["resize", 2], ["shutdown", True]]), 1),
    (dict(workers=1, submit=[["a"]], ctl=[["resize", 0], ["resize", 1]]), 2),
    (dict(workers=2, submit=[["a?", "b^"]]), 1),
    (dict(workers=2, submit=[["a?"], ["b^"]]), 1),
]
THOROUGH = [
    (dict(workers=2, submit=[["a?", "b^"]]), 3),
    (dict(workers=2, submit=[["a?"], ["b^"]]), 2),
    (dict(workers=3, submit=[["a?", "b?", "c^"]]), 2),
    (dict(workers=2, submit=[["a"]], ctl=[["resize", 1], ["resize", 2], ["shutdown", True]]), 2),
    (dict(workers=1, submit=[["a", "b"]], ctl=[["resize", 0], ["resize", 1]]), 3),
    (dict(workers=3, submit=[["a"]], ctl=[["resize", 1], ["resize", 3]]), 2),
    (dict(workers=1, submit=[["a", "b"], ["c"]], ctl=[["shutdown", True]], ctl_first=True), 2),
    (dict(workers=2, submit=[["a"], ["c"]], ctl=[["shutdown", True], ["resize", 1]], ctl_first=True), 2),
    (dict(workers=3, submit=[["a"]], ctl=[["resize", 2], ["resize", 1]]), 2),
    (dict(workers=3, submit=[["a", "b"]], ctl=[["resize", 2], ["shutdown", True]]), 2),
    (dict(workers=1, submit=[["a", "b"], ["c"]], ctl=[["shutdown", True]]), 3),
    (dict(workers=2, submit=[["a", "b"]], ctl=[["shutdown", True], ["resize", 1]]), 2),
    (dict(workers=1, submit=[["a", "b", "c"]]), 3),
    (dict(workers=2, submit=[["a+", "b"]]), 3),
    (dict(workers=3, submit=[["a", "b"], ["c"]]), 2),
    (dict(workers=2, submit=[["a"], ["b!"]]), 3),
    (dict(workers=2, submit=[["a+", "b"]], ctl=[["resize", 1]]), 3),
    (dict(workers=3, submit=[["a"]], ctl=[["resize", 1]]), 3),
    (dict(workers=1, submit=[["a", "b"]], ctl=[["resize", 3]]), 2),
    (dict(workers=1, submit=[["a"]], ctl=[["resize", 2], ["resize", 1]]), 2),
    (dict(workers=2, submit=[["a", "b"]], ctl=[["shutdown", True]]), 3),
    (dict(workers=2, submit=[["a+"], ["b"]], ctl=[["shutdown", True]]), 2),
    (dict(workers=2, submit=[["a+", "b"]], ctl=[["shutdown", False]]), 3),
    (dict(workers=3, submit=[["a", "b", "c"]], ctl=[["shutdown", True]]), 2),
]


def main(tier, only=None):
    run = Run("C14", tier)
    run.cov["rule"] = (
        "E1: every execution of the real ThreadedTaskDispatcher with total deviation cost <= bound "
        "(pre-emption at any dispatcher source line or lock/condition operation = 1; switch forced by blocking = 0); "
        "evaluations = executions; distinct_nontrivial = distinct orderings of visible operations among executions with >= 1 deviation"
    )
    run.assume(
        "CPython GIL granularity: a source line without a Python-level call is atomic",
        "spurious condition-variable wake-ups are not modelled",
        "shutdown()'s timed wait expires only when no thread can run (virtual clock)",
    )
    for params, bound in QUICK if tier == "quick" else THOROUGH:
        scn = Pool(**params)
        name = "pool:" + ",".join(f"{k}={v}" for k, v in params.items())
        if only and only not in name:
            continue
        explore.explore(scn, bound, run, part=name)
    return run.finish()


def replay(rep):
    r = explore.replay(rep)
    return 1 if r.viol else 0
