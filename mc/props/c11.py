"""C11  Nothing is executed after the server has decided to close a connection.

E1: a first message that makes the server close (error response, Connection:
close, HTTP/1.0, response that cannot be delimited, client EOF) followed by a
complete request, a partial request or garbage, in the same read or a later
segment, lookahead 0/1/2/5, 1-2 workers; all interleavings of the I/O thread
reading further data with the worker taking the close decision.
"""
from .. import explore
from ..evidence import Run
from . import c04


class AfterClose(c04.Pipe):
    name = "afterclose"

    def build(self, S, W):
        ctx = super().build(S, W)
        ch, app = ctx["ch"], ctx["app"]
        dec = dict(step=None, why=None)
        inner = S.fp

        def fp():
            if dec["step"] is None and (ch.will_close or ch.close_when_flushed or not ch.connected):
                dec["step"] = S.steps
                dec["why"] = "will_close" if ch.will_close else ("close_when_flushed" if ch.close_when_flushed else "disconnected")
            return inner()

        S.fp = fp
        # stamp every application entry with the step counter
        orig_call = app.__call__
        stamps = []

        class Stamped(type(app)):
            def __call__(self2, environ, start_response):
                stamps.append((environ.get("HTTP_X_ID"), S.steps))
                return super().__call__(environ, start_response)

        app.__class__ = Stamped
        ctx["dec"] = dec
        ctx["stamps"] = stamps
        return ctx

    def oracle(self, ctx, S, W, reason):
        v = []
        app, ref, dec = ctx["app"], ctx["ref"], ctx["dec"]
        for name, exc, tb in S.crashed:
            v.append((f"thread-died:{name.split('-')[0]}", f"{name} died: {exc}\n{tb[-300:]}"))
        if reason != "quiescent":
            v.append(("end:" + reason, f"execution ended with {reason}"))
        enters = [e[3] for e in app.events if e[0] == "enter"]
        allowed = self.params.get("allowed")
        if allowed is None:
            allowed = [e[3] for e in ref[2]]
        extra = [x for x in enters if x not in allowed]
        if extra:
            v.append(("executed-behind-close", f"requests {extra} were executed; only {allowed} precede the close decision (executed: {enters})"))
        if len(enters) != len(set(enters)):
            v.append(("executed-twice", f"executed {enters}"))
        if dec["step"] is not None:
            late = [(i, st) for i, st in ctx["stamps"] if st > dec["step"]]
            if late:
                v.append((f"executed-after-decision:{dec['why']}", f"application entered for {late} after the close decision ({dec['why']}) at step {dec['step']}"))
        return v

    def outcome(self, ctx, S, W):
        return (tuple(e[3] for e in ctx["app"].events if e[0] == "enter"), ctx["sock"].closed, ctx["dec"]["why"])


def scenarios(tier):
    q = tier == "quick"
    R = c04.req
    firsts = {
        "conn-close": R(1, extra=["Connection: close"]),
        "http10": R(1, version="1.0"),
        "malformed": b"GET /r1 HTTP/1.1\r\nHost: h\r\nContent-Length: x\r\nX-Id: 1\r\n\r\n",
        "short-body": R(1),  # the application declares more than it produces
    }
    followers = {
        "complete": R(2),
        "partial": R(2)[:-10],
        "garbage": b"\x00\x01 garbage\r\n\r\n" + R(2),
        "two": R(2) + R(3),
    }
    S = []
    for fk, first in firsts.items():
        for wk, fol in followers.items():
            for la in (0, 1, 2, 5):
                for where in ("same", "later", "inq", "split"):
                    for workers in (1, 2):
                        if where in ("inq", "split") and (wk not in ("complete", "two") or la == 0 or (q and (workers == 2 or la == 5))):
                            continue
                        if q and where in ("same", "later") and not ((la in (0, 1) and workers == 1) or (la == 2 and workers == 2 and wk == "two" and where == "later")):
                            continue
                        if q and wk in ("partial", "garbage") and (fk not in ("conn-close", "malformed") or la == 0):
                            continue
                        progs = {"/r1": dict(body=["ok"], block="go")}
                        if fk == "short-body":
                            progs = {"/r1": dict(body=["ab"], block="go", cl=True)}
                        p = dict(workers=workers, lookahead=la, release=["go"], programs=progs)
                        if fk == "short-body":
                            p["programs"]["/r1"]["body"] = ["ab"]
                            p["short"] = True
                        if where == "same":
                            p["pre"] = (first + fol).decode("latin-1")
                        elif where == "later":
                            p["pre"] = first.decode("latin-1")
                            p["segments"] = [(fol.decode("latin-1"), None)]
                        elif where == "inq":
                            # the follower is already in the socket when the threads start and the
                            # application does not block: the I/O thread's first read races the worker
                            p["pre"] = first.decode("latin-1")
                            p["inq"] = fol.decode("latin-1")
                            p["release"] = []
                            for pr in p["programs"].values():
                                pr.pop("block", None)
                        else:
                            # the read that carries the closing request also carries the first part of the
                            # next one; the rest arrives after the close decision
                            cut = len(fol) // 2
                            p["pre"] = (first + fol[:cut]).decode("latin-1")
                            p["segments"] = [("@release:go", None), (fol[cut:].decode("latin-1"), None)]
                            p["release"] = []
                        p["allowed"] = ["1"] if fk != "malformed" else []
                        bound = 1 if q else 2
                        if where == "split" or (where == "inq" and la == 1 and wk == "complete"):
                            bound = 2  # these races need the worker to be resumed at once after the I/O thread queued the task
                        S.append((f"{fk}+{wk}[{where},la={la},w={workers}]", p, bound))
    # a send error that is not a disconnect makes the *worker* take the close decision (will_close)
    for la in (0, 1):
        p = dict(pre=(R(1) + R(2)).decode("latin-1"), workers=1, lookahead=la, fault_menu=[22, -1], fault_sites=["send"], max_faults=1)
        p["allowed"] = ["1", "2"]  # judged by executed-after-decision
        S.append((f"send-error-while-serving[la={la}]", p, 1))
    # the interim response cannot be sent (disconnect errno or another error) while the body is
    # already in the same read / arrives afterwards: a decision to close must stop the request
    exp = R(1, method="POST", extra=["Expect: 100-continue"], body=b"hello")
    for kind in ("same-read", "body-later"):
        segs = [(exp.decode("latin-1"), None)] if kind == "same-read" else [(exp[:-3].decode("latin-1"), None), (exp[-3:].decode("latin-1"), None)]
        p = dict(pre="", workers=1, lookahead=0, segments=segs, fault_menu=[104, 32, 22, -1], fault_sites=["send"], max_faults=1)
        p["allowed"] = ["1"]  # judged by executed-after-decision
        S.append((f"interim-send-error[{kind}]", p, 2))  # fault + one pre-emption (the worker must run before the I/O thread tears down)
    # client EOF while a request runs and another is buffered behind it
    for la in (1, 2):
        p = dict(pre=(R(1) + R(2)).decode("latin-1"), workers=1, lookahead=la, segments=[("", "eof")], release=["go"], programs={"/r1": dict(body=["ok"], block="go")})
        p["allowed"] = ["1", "2"]  # r2 may run only before the teardown: judged by executed-after-decision
        S.append((f"eof-behind-running[la={la}]", p, 1 if q else 2))
    return S


class ShortBody(AfterClose):
    pass


def main(tier, only=None):
    run = Run("C11", tier)
    run.cov["rule"] = c04.RULE + "; the close decision is located at the first scheduling point where will_close / close_when_flushed / disconnected is observed"
    run.assume(*c04.ASSUME)
    for name, params, bound in scenarios(tier):
        if only and only not in name:
            continue
        params = dict(params)
        if params.pop("short", False):
            # application declares Content-Length 5 but produces 2 bytes: response cannot be delimited
            params["programs"] = {"/r1": dict(body=["ab"], block="go", declare=5)}
        explore.explore(AfterClose(**params), bound, run, part=name, prefix_keys=False)
    return run.finish()


def replay(rep):
    r = explore.replay(rep)
    return 1 if r.viol else 0
