"""C03  Every response stream is well-framed and persistence is signalled truthfully.

E5: all programs of a small response language x request method / version /
Connection / pipelining depth, executed on the real server; the wire is parsed
by the independent client-side parser (mc.refhttp.parse_responses) and compared
with what the program produced.
"""
import itertools
import multiprocessing as mp
import random

from .. import apps, common, refhttp, seq
from ..evidence import Run

SERVER_FIELDS = {b"date", b"server", b"via", b"connection", b"content-length", b"transfer-encoding"}
CHUNK_ALPHA = [b"", b"a", b"bc"]
_env = {}


def get_env(logsock=True):
    e = _env.get(logsock)
    if e is None:
        e = seq.Env(None, log_socket_errors=logsock)
        _env[logsock] = e
    return e


def request_bytes(i, req):
    method, ver, conn = req["method"], req["version"], req["conn"]
    lines = [f"{method} /{i} HTTP/{ver}", "Host: h"]
    if conn:
        lines.append(f"Connection: {conn}")
    body = b""
    if method == "POST":
        lines.append("Content-Length: 2")
        body = b"xy"
    return ("\r\n".join(lines) + "\r\n\r\n").encode() + body


def run_case(case):
    env = get_env(case.get("logsock", True))
    env.activate()
    recs = []
    env.app = apps.program_app(env, case["programs"], recs)
    del env.escaped[:]
    del env.disp.worker_exc[:]
    # a slow client: the kernel accepts at most `slow` bytes per send() call
    slow = case.get("slow")
    env.S.send_plan = (lambda sock, n: min(n, slow)) if slow else None
    c = env.connect()
    data = b"".join(request_bytes(i, r) for i, r in enumerate(case["requests"]))
    c.send(data)
    env.S.send_plan = None
    res = dict(wire=c.wire, closed=c.closed, recs=recs, escaped=list(env.escaped), worker_exc=list(env.disp.worker_exc), log=list(env.W.log))
    if not c.closed and c.ch is not None:
        c.ch.handle_close()
    return res


def effective(prog):
    """status and headers that count: those of the last start_response call"""
    r2 = prog.get("restart")
    if r2:
        return r2["status"], r2["headers"]
    return prog["status"], prog.get("headers", [])


def declared_cl(prog):
    for k, v in effective(prog)[1]:
        if k.lower() == "content-length":
            return int(v)
    return None


def judge(case, res):
    v = []
    reqs, progs = case["requests"], case["programs"]
    recs = res["recs"]
    for e in res["escaped"]:
        v.append((f"escaped:{e[1]}", f"exception escaped an event handler: {e}"))
    for e in res["worker_exc"]:
        v.append((f"worker-exc:{type(e).__name__}", f"exception reached the worker loop: {e!r}"))
    methods = [r["method"].encode() for r in reqs]
    try:
        resps = refhttp.parse_responses(res["wire"], methods, closed=res["closed"], final_1xx=True)
    except refhttp.WireError as e:
        kind = "stray-bytes-after-head-response" if "malformed status line b'0'" in str(e) and any(m == b"HEAD" for m in methods) else str(e).split(" at ")[0].split(":")[0][:40]
        v.append((f"wire-unparseable:{kind}", f"{e} | wire={res['wire'][:300]!r}"))
        return v
    if len(resps) != len(recs):
        v.append(("response-count", f"{len(resps)} responses for {len(recs)} executed requests"))
        return v
    for i, r in enumerate(resps):
        req, prog, rec = reqs[i], progs[i], recs[i]
        last = i == len(resps) - 1
        failed_early = rec.raised is not None and rec.raised[0] in ("call", "after_start") or (rec.raised is not None and not _any_output(prog, rec))
        pstatus, pheaders = effective(prog)
        status = int(pstatus[:3])
        produced = rec.produced
        decl = declared_cl(prog)
        bodyless = req["method"] == "HEAD" or status in (204, 304) or status < 200
        tag = f"req {i} {req} prog {prog}"
        if failed_early:
            if r.status != 500:
                v.append(("no-500", f"{tag}: failure before output answered with {r.status}"))
            if not (last and res["closed"]):
                v.append(("500-not-closed", f"{tag}: connection not closed after the 500"))
            continue
        if r.status != status or r.reason != pstatus[4:].encode():
            v.append(("status", f"{tag}: status line {r.status} {r.reason!r}"))
        if r.version != req["version"].encode():
            v.append(("version", f"{tag}: response version {r.version!r}"))
        # the application's header fields, and nothing else but server fields
        fields = [(k.lower(), val) for k, val in r.fields]
        rest = list(fields)
        for k, val in pheaders:
            if k.lower() == "content-length":
                continue
            t = (k.lower().encode("latin-1"), val.encode("latin-1"))
            if t in rest:
                rest.remove(t)
            else:
                v.append(("app-header-missing", f"{tag}: header {k}: {val} not on the wire ({r.fields})"))
        for k, val in rest:
            if k not in SERVER_FIELDS:
                v.append(("foreign-header", f"{tag}: unexpected field {k!r}: {val!r}"))
        for name in (b"content-length", b"transfer-encoding", b"date"):
            if len(r.get(name)) > 1:
                v.append(("duplicate-framing-header", f"{tag}: {name!r} appears {len(r.get(name))} times"))
        if r.get(b"content-length") and r.get(b"transfer-encoding"):
            v.append(("cl-and-te", f"{tag}: both Content-Length and Transfer-Encoding"))
        if status in (204, 304) or status < 200:
            if r.get(b"content-length") or r.get(b"transfer-encoding"):
                v.append(("framing-header-on-bodyless-status", f"{tag}: {r.fields}"))
        # body
        want = produced if decl is None else produced[:decl]
        if bodyless:
            want = b""
        if r.complete:
            if r.body != want:
                v.append(("body", f"{tag}: client recovers {r.body!r}, expected {want!r} (framing {r.framing})"))
        else:
            if rec.raised is None and not (decl is not None and len(produced) < decl):
                v.append(("incomplete-response", f"{tag}: the application produced everything it announced, but the client cannot delimit the response (framing {r.framing}, got {r.body!r}); wire={res['wire'][-80:]!r}"))
            if not want.startswith(r.body):
                v.append(("body-prefix", f"{tag}: truncated body {r.body!r} is not a prefix of {want!r}"))
            if not (last and res["closed"]):
                v.append(("truncated-but-reused", f"{tag}: response cannot be delimited as announced but the connection is reused"))
        # persistence
        if req["version"] == "1.1":
            announces_close = r.announces_close()
        else:
            announces_close = r.announces_close() or not r.announces_keepalive()
        closed_after = last and res["closed"]
        if announces_close and not closed_after:
            v.append(("announced-close-but-open", f"{tag}: response announces closing but the connection lives on"))
        if not announces_close and r.complete:
            late_cause = rec.raised is not None or (decl is not None and len(produced) < decl and not bodyless)
            if closed_after and not late_cause:
                v.append(("closed-without-announcing", f"{tag}: connection closed after a complete response that does not announce it ({r.fields})"))
            if not closed_after and last and i < len(reqs) - 1:
                v.append(("next-request-not-served", f"{tag}: persistent response but request {i + 1} was not served"))
        if r.framing == "close" and not announces_close:
            v.append(("close-delimited-without-close", f"{tag}: close-delimited body but no 'Connection: close'"))
        if r.announces_close() and r.announces_keepalive():
            pass  # close takes precedence (RFC 9110 7.6.1)
    return v


def _any_output(prog, rec):
    """did the head leave before the failure?  (approximation used only to
    decide whether a 500 is expected: any non-empty chunk produced)"""
    return len(rec.produced) > 0


def programs(tier):
    maxlen = 3 if tier == "quick" else 4
    bodies = [list(t) for n in range(0, maxlen + 1) for t in itertools.product(CHUNK_ALPHA, repeat=n)]
    out = []
    for status in ("200 OK", "404 Not Found", "204 No Content", "304 Not Modified", "100 Continue"):
        for delivery in ("list", "gen", "lazy", "write", "write+iter", "write+list", "fw", "fw-noseek", "fw-offset"):
            for chunks in bodies:
                total = sum(len(c) for c in chunks)
                for cl in ("none", "exact", "+1", "-1"):
                    if cl == "-1" and total == 0:
                        continue
                    headers = [("X-App", "v")]
                    if cl != "none":
                        n = total + {"exact": 0, "+1": 1, "-1": -1}[cl]
                        # header names are case-insensitive: spell it differently now and then
                        spell = ("Content-Length", "content-length", "CONTENT-LENGTH")[(len(chunks) + total) % 3]
                        headers.append((spell, str(n)))
                    if delivery in ("write+iter", "write+list") and len(chunks) < 2:
                        continue
                    if status[:3] != "200" and (delivery in ("write+iter", "write+list", "fw-noseek", "fw-offset") or len(chunks) > 2):
                        continue
                    out.append(dict(status=status, headers=headers, delivery=delivery, chunks=chunks))
    # start_response called a second time (exc_info) before any output
    for chunks in ([b"abc"], [b"a", b"bc"], []):
        total = sum(map(len, chunks))
        for cl1 in (None, total, total + 2, 1):
            for cl2 in (None, total):
                for delivery in ("list", "gen", "write"):
                    h1 = [("X-Old", "1")] + ([("Content-Length", str(cl1))] if cl1 is not None else [])
                    h2 = [("X-New", "2")] + ([("Content-Length", str(cl2))] if cl2 is not None else [])
                    out.append(dict(status="200 OK", headers=h1, delivery=delivery, chunks=chunks, restart=dict(status="404 Not Found", headers=h2)))
    # failure after the head has left / before any output
    for chunks in ([b"a", b"bc"], [b"", b"a"]):
        for cl in ("none", "exact"):
            headers = [("X-App", "v")] + ([("Content-Length", str(sum(map(len, chunks))))] if cl == "exact" else [])
            for k in (0, 1, 2):
                for cls in ("ValueError", "OSError", "ConnectionResetError"):
                    out.append(dict(status="200 OK", headers=headers, delivery="gen", chunks=chunks, exc=("chunk", k), exc_class=cls))
    return out


PROBE = dict(status="200 OK", headers=[("Content-Length", "2")], delivery="list", chunks=[b"ok"])


def cases(tier):
    progs = programs(tier)
    reqs = []
    for method in ("GET", "HEAD", "POST"):
        for ver in ("1.1", "1.0"):
            for conn in (None, "close", "keep-alive"):
                reqs.append(dict(method=method, version=ver, conn=conn))
    for prog in progs:
        for req in reqs:
            if req["method"] == "HEAD" and any(prog["chunks"]):
                continue  # applications emitting a body for HEAD are outside the quantifier
            if req["method"] == "POST" and tier == "quick" and prog["delivery"] not in ("list", "fw"):
                continue
            for depth in (1, 2):
                if depth == 2 and (tier == "thorough" or prog["delivery"] in ("fw", "fw-offset", "list", "lazy", "write+list")) and not prog.get("exc"):
                    probe = dict(method="GET", version=req["version"], conn="keep-alive" if req["version"] == "1.0" else None)
                    yield dict(requests=[req, probe], programs=[prog, PROBE], logsock=True, slow=7)
                for logsock in ((True, False) if prog.get("exc") else (True,)):
                    if depth == 1:
                        yield dict(requests=[req], programs=[prog], logsock=logsock)
                    else:
                        probe = dict(method="GET", version=req["version"], conn="keep-alive" if req["version"] == "1.0" else None)
                        yield dict(requests=[req, probe], programs=[prog, PROBE], logsock=logsock)


def _batch(items):
    out = []
    classes = set()
    for case in items:
        res = run_case(case)
        v = judge(case, res)
        p = case["programs"][0]
        r = case["requests"][0]
        classes.add((p["status"][:3], p["delivery"], len(p["chunks"]), tuple(h[0] for h in p["headers"]), r["method"], r["version"], r["conn"], len(case["requests"]), res["closed"], res["wire"][9:12], b"chunked" in res["wire"]))
        for key, what in v:
            out.append((key, what, case))
    return len(items), classes, out


def vkey(key, case):
    p, r = case["programs"][0], case["requests"][0]
    return key


def main(tier, only=None):
    run = Run("C03", tier)
    rnd = random.Random(common.SEED)
    run.cov["rule"] = (
        "all programs: status {200,404,204,304,100} x delivery {list,generator,write(),write()+iterable,file_wrapper seekable/non-seekable} x every chunk sequence up to length "
        + ("3" if tier == "quick" else "4")
        + " over {b'',b'a',b'bc'} x declared Content-Length {absent,exact,+1,-1} (+ failure at iteration step k) x request method {GET,HEAD,POST} x version {1.0,1.1} x Connection {absent,close,keep-alive} x pipelining depth {1,2}; "
        "wire parsed by the independent client parser; distinct_nontrivial = distinct (program class, request class, outcome class) triples"
    )
    run.assume("applications that emit body bytes for HEAD or several/non-decimal Content-Length headers are outside the quantifier", "one fixed schedule; the client reads everything (send window unlimited)")
    items = list(cases(tier))
    if only:
        items = [c for c in items if only in repr(c)]
    rnd.shuffle(items)
    batches = [items[i : i + 300] for i in range(0, len(items), 300)]
    ctx = mp.get_context("fork")
    n = 0
    classes = set()
    viol = []
    with ctx.Pool(common.NPROC) as pool:
        for k, cl, out in pool.imap_unordered(_batch, batches):
            n += k
            classes |= cl
            viol += out
    run.add(states=len(classes), transitions=n, traces_validated_against_impl=n, evaluations=n, distinct_nontrivial=len(classes))
    run.part("programs", cases=n, programs=len(programs(tier)))
    for c in items[:3]:
        run.sample(c)
    seen = {}
    for key, what, case in viol:
        seen.setdefault(vkey(key, case), []).append((what, case))
    for k, lst in sorted(seen.items()):
        lst.sort(key=lambda x: len(repr(x[1])))
        what, case = lst[0]
        run.violation(k, f"{what} [{len(lst)} cases]", case)
    return run.finish()


def replay(rep):
    case = rep
    for p in case["programs"]:
        p["chunks"] = [c.encode("latin-1") for c in p["chunks"]]
        p["headers"] = [tuple(h) for h in p["headers"]]
        if p.get("restart"):
            p["restart"]["headers"] = [tuple(h) for h in p["restart"]["headers"]]
        if p.get("exc"):
            p["exc"] = tuple(p["exc"])
    res = run_case(case)
    print("wire:", res["wire"])
    print("closed:", res["closed"])
    v = judge(case, res)
    for k, w in v:
        print("VIOLATION-DETAIL", k, w)
    return 1 if v else 0
