"""C01  Request framing is unambiguous and agrees with RFC 9112.

(a) every sentence of a finite instance of the request grammar (pipelines,
    three framings, trailers, extensions, obs-fold, target forms),
(b) every single-token mutation of a base set at every grammar position,
(c) explicit-state search over token sequences fed to the real
    channel -> parser -> receiver,
each run through the real server under the sequential driver and compared with
the independent reference parser (mc.refhttp), followed by a sentinel request
so that a framing disagreement becomes a visible desynchronisation.
"""
import hashlib
import multiprocessing as mp
import random

from .. import apps, common, gen, oracle, seq
from ..evidence import Run

CONFIGS = {
    "default": {},
    "tight-body": {"max_request_body_size": 4},
    "tight-head": {"max_request_header_size": 60},
}

_envs = {}


def get_env(cfg):
    env = _envs.get(cfg)
    if env is None:
        env = seq.Env(None, **CONFIGS[cfg])
        env.app = apps.echo_app(env)
        _envs[cfg] = env
    return env


def run_stream(cfg, stream):
    env = get_env(cfg)
    env.activate()
    del env.calls[:]
    del env.escaped[:]
    del env.disp.worker_exc[:]
    c = env.connect()
    c.send(stream)
    obs = oracle.Observed(env.calls, c.wire, c.closed, env.escaped, env.disp.worker_exc)
    if not c.closed:
        ch = c.ch
        if ch is not None:
            ch.handle_close()
    return obs


def limits(cfg):
    a = get_env(cfg).adj
    return a.max_request_header_size, a.max_request_body_size


def judge_stream(cfg, stream, complete=True):
    obs = run_stream(cfg, stream)
    mh, mb = limits(cfg)
    v = oracle.judge(stream, obs, mh, mb, complete=complete)
    return v, obs


def _batch(args):
    cfg, items = args
    out = []
    classes = set()
    for label, stream in items:
        full = stream + oracle.SENTINEL
        v, obs = judge_stream(cfg, full)
        classes.add(hashlib.blake2b(repr((len(obs.calls), obs.wire[:12], obs.closed, tuple(c[4] for c in obs.calls))).encode(), digest_size=8).digest())
        for key, what in v:
            out.append((key, what, label, stream))
    return len(items), classes, out


# ---------------------------------------------------------------------------
# (c) token search
# ---------------------------------------------------------------------------
CHUNK_HEAD = b"POST /p HTTP/1.1\r\nHost: h\r\nTransfer-Encoding: chunked\r\n\r\n"
CHUNK_ALPHA = [b"0", b"5", b"a", b"g", b";", b"=", b'"', b"\\", b"\r", b"\n", b" ", b"\t", b"x", b"+"]
HEAD_LINE = b"POST /p HTTP/1.1\r\n"
HEAD_ALPHA = [b"A", b":", b" ", b"\t", b"\r", b"\n", b"5", b",", b"_", b"-", b"\x0b", b"\xe9", b"Content-Length", b"Transfer-Encoding", b"chunked"]
PROBE = b"\r\n\r\n" + oracle.SENTINEL


def _token_search(args):
    cfg, prefix, alpha, first, depth = args
    env = get_env(cfg)
    env.activate()
    mh, mb = limits(cfg)
    del env.calls[:]
    c = env.connect()
    c.send(prefix)
    for t in first:
        c.send(t)
    root = env.snapshot(c)
    stream0 = prefix + b"".join(first)
    seen = {hashlib.blake2b(root, digest_size=12).digest()}
    frontier = [(root, stream0)]
    out = []
    trans = 0
    probes = 0
    cur = c
    for d in range(len(first), depth):
        nxt = []
        for blob, stream in frontier:
            for tok in alpha:
                cur = env.restore(blob, old=cur)
                del env.escaped[:]
                del env.disp.worker_exc[:]
                cur.send(tok)
                trans += 1
                s2 = stream + tok
                obs = oracle.Observed(env.calls, cur.wire, cur.closed, env.escaped, env.disp.worker_exc)
                v = oracle.judge(s2, obs, mh, mb, complete=False)
                b2 = env.snapshot(cur)
                h = hashlib.blake2b(b2, digest_size=12).digest()
                new = h not in seen
                if new:
                    seen.add(h)
                    if not cur.closed:
                        nxt.append((b2, s2))
                # completion probe: terminate whatever is pending, then a sentinel
                if new or v:
                    del env.escaped[:]
                    del env.disp.worker_exc[:]
                    cur.send(PROBE)
                    probes += 1
                    s3 = s2 + PROBE
                    obs = oracle.Observed(env.calls, cur.wire, cur.closed, env.escaped, env.disp.worker_exc)
                    v = v + oracle.judge(s3, obs, mh, mb, complete=True)
                    for key, what in v:
                        out.append((key, what, ("tokens", cfg), s3))
        frontier = nxt
    if not cur.closed and cur.ch is not None:
        cur.ch.handle_close()
    return trans, probes, len(seen), out


def classify(key, stream):
    return key


def main(tier, only=None):
    run = Run("C01", tier)
    rnd = random.Random(common.SEED)
    run.cov["rule"] = (
        "every stream is executed on the real server (sequential driver) and compared with an independent RFC 9112 reference parser; "
        "(a) all sentences of the finite grammar instance x follow-up message x leading CRLF, (b) all single-token mutations of 8 base messages at every token position, "
        "(c) BFS over token sequences with exact-state merging and a completion probe in every new state; each stream ends with a sentinel request; "
        "distinct_nontrivial = distinct (calls, first response, closed, bodies) outcome classes + distinct BFS states"
    )
    run.assume(
        "tolerances T1-T9 of DESIGN.md appendix A: where RFC 9112 gives recipients latitude both outcomes are accepted, but a delivered message must carry the reference framing",
        "one fixed schedule and unsplit delivery (segmentation is C02, schedules are C04/C11)",
    )
    ctx = mp.get_context("fork")
    work = []
    na = nb = 0
    if only in (None, "a"):
        items = list(gen.corpus_streams(tier))
        na = len(items)
        for cfg in CONFIGS:
            for i in range(0, len(items), 400):
                work.append(("a", (cfg, items[i : i + 400])))
    if only in (None, "b"):
        items = []
        for name, toks in gen.base_messages():
            for desc, bs in gen.mutations(toks):
                items.append(((name, desc), b"".join(bs)))
        nb = len(items)
        for cfg in CONFIGS:
            if cfg == "tight-head" and tier == "quick":
                continue
            for i in range(0, len(items), 400):
                work.append(("b", (cfg, items[i : i + 400])))
    twork = []
    if only in (None, "c"):
        d1, d2 = (5, 5) if tier == "quick" else (6, 6)
        for cfg in ("default", "tight-body") if tier == "thorough" else ("default",):
            for t1 in CHUNK_ALPHA:
                for t2 in CHUNK_ALPHA:
                    twork.append((cfg, CHUNK_HEAD, CHUNK_ALPHA, (t1, t2), d1))
            for t1 in HEAD_ALPHA:
                for t2 in HEAD_ALPHA:
                    twork.append((cfg, HEAD_LINE, HEAD_ALPHA, (t1, t2), d2))
        run.cov["token_search_depth"] = {"chunked-body": d1, "header-section": d2}
    rnd.shuffle(work)
    rnd.shuffle(twork)
    classes = set()
    viol = []
    nstreams = 0
    with ctx.Pool(common.NPROC) as pool:
        r1 = pool.imap_unordered(_batch, [w[1] for w in work])
        r2 = pool.imap_unordered(_token_search, twork)
        for n, cl, out in r1:
            nstreams += n
            classes |= cl
            viol += out
        tt = tp = ts = 0
        for trans, probes, nseen, out in r2:
            tt += trans
            tp += probes
            ts += nseen
            viol += out
    run.add(states=len(classes) + ts, transitions=nstreams + tt + tp, traces_validated_against_impl=nstreams + tp, evaluations=nstreams + tt, distinct_nontrivial=len(classes) + ts)
    run.part("grammar-corpus", streams_per_config=na, configs=list(CONFIGS))
    run.part("single-token-mutations", streams_per_config=nb)
    run.part("token-search", transitions=tt, completion_probes=tp, states=ts, partitions=len(twork))
    run.sample({"kind": "corpus", "stream": next(iter(gen.corpus_streams(tier)))[1]})
    for name, toks in gen.base_messages()[2:3]:
        for desc, bs in list(gen.mutations(toks))[40:42]:
            run.sample({"kind": "mutation", "base": name, "mutation": desc, "stream": b"".join(bs)})
    # group violations
    seen = {}
    for key, what, label, stream in viol:
        k = violation_key(key, label, stream)
        seen.setdefault(k, []).append((what, label, stream))
    for k, lst in sorted(seen.items()):
        lst.sort(key=lambda x: len(x[2]))
        what, label, stream = lst[0]
        cfg = label[1] if label and label[0] == "tokens" else None
        run.violation(k, f"{what} | stream={stream[:200]!r} [{len(lst)} streams]", {"stream": stream.decode("latin-1"), "label": repr(label)})
    return run.finish()


def violation_key(key, label, stream):
    """Classification used for the known-findings table: the oracle's verdict
    key refined by the construct involved."""
    return key


def replay(rep):
    stream = rep["stream"].encode("latin-1")
    bad = 0
    for cfg in CONFIGS:
        full = stream if stream.endswith(oracle.SENTINEL) else stream + oracle.SENTINEL
        v, obs = judge_stream(cfg, full)
        print(f"[{cfg}] calls={[(c[0], c[1], c[4]) for c in obs.calls]} closed={obs.closed}")
        print(f"[{cfg}] wire={obs.wire[:300]!r}")
        for key, what in v:
            print("VIOLATION-DETAIL", key, what)
            bad = 1
    return bad
