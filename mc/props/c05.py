"""C05  No lost wake-up: responses are delivered without relying on the poll timeout.

E1 with the poll timeout taken as infinite: at quiescence (no thread can run,
the client script is finished and the client is still reading) every complete
request must have its complete response at the client or the connection must
be closed, no output may be pending, no request queued, no worker parked for
buffer space that is available.  A spinning I/O thread counts as a violation.
"""
from .. import explore
from ..evidence import Run
from . import c04


class Wake(c04.Pipe):
    name = "wake"

    def oracle(self, ctx, S, W, reason):
        v = []
        ch, sock, app, disp, ref = ctx["ch"], ctx["sock"], ctx["app"], ctx["disp"], ctx["ref"]
        for name, exc, tb in S.crashed:
            v.append((f"thread-died:{name.split('-')[0]}", f"{name} died: {exc}\n{tb[-300:]}"))
        if reason == "livelock":
            v.append(("livelock", f"the I/O thread spins with no other thread able to run (total_outbufs_len={ch.total_outbufs_len}, requests={len(ch.requests)}, window={sock.window})"))
        elif reason != "quiescent":
            v.append(("end:" + reason, f"execution ended with {reason}"))
        if S.env_pos < len(S.env_events):
            v.append(("harness:env-not-finished", "environment script not finished at quiescence"))
        closed = sock.closed
        if not closed:
            if ch.total_outbufs_len > 0 and sock.writable_now():
                v.append(("output-pending-at-quiescence", f"{ch.total_outbufs_len} bytes pending, socket writable, nobody will send them (will_close={ch.will_close}, close_when_flushed={ch.close_when_flushed})"))
            if ch.requests:
                v.append(("request-queued-at-quiescence", f"{len(ch.requests)} request(s) in channel.requests, dispatcher queue {len(disp.queue)}"))
            if (ch.will_close or ch.close_when_flushed) and ch.total_outbufs_len == 0:
                v.append(("close-pending-at-quiescence", "close decided, nothing left to flush, but the socket is still open"))
        if len(disp.queue):
            v.append(("task-queued-at-quiescence", f"{len(disp.queue)} task(s) in the dispatcher queue"))
        wm = ctx["srv"].adj.outbuf_high_watermark
        for t in S.threads:
            if t.state == "blocked" and t.bkind == "cv" and t.name.startswith("waitress-"):
                # parked in outbuf_lock.wait() or queue_cv.wait()
                if ch.outbuf_lock.waiters:
                    if ch.total_outbufs_len <= wm or not ch.connected:
                        v.append(("producer-parked-with-space", f"worker parked in outbuf_lock.wait() although total_outbufs_len={ch.total_outbufs_len} <= watermark {wm} or the channel is closed (connected={ch.connected})"))
                    break
        if not closed and not v:
            out = bytes(sock.out)
            a, b = c04.finals(out, len(ref[2])), c04.finals(ref[0], len(ref[2]))
            if a is None or a != b:
                v.append(("response-incomplete-at-quiescence", f"client has {len(out)} bytes ({[x[0] for x in a] if a else None}), reference {len(ref[0])}; connection open"))
        return v


def scenarios(tier):
    q = tier == "quick"
    two = (c04.req(1) + c04.req(2)).decode("latin-1")
    one = c04.req(1).decode("latin-1")
    S = []
    big = ["y" * 30, "z" * 30, "w" * 30]
    for poll2 in (False, True):
        tag = "poll" if poll2 else "select"
        # small responses, nothing special
        S.append((f"two-requests[{tag}]", dict(pre=two, workers=1, poll2=poll2), 1 if q else 2))
        # response larger than the send window: the rest must go out after the client drains
        S.append((f"window<response[{tag}]", dict(pre=one, workers=1, poll2=poll2, window=40, drains=[None], programs={"/r1": dict(body=big)}), 1 if q else 2))
        # above the high watermark: the producer parks and must be released
        S.append((f"above-watermark[{tag}]", dict(pre=one, workers=1, poll2=poll2, window=20, drains=[50, None], adj=dict(outbuf_high_watermark=50), programs={"/r1": dict(body=big, cl=False)}), 1 if q else 2))
        # several wake-ups in a row, the last one needed to flush a response the worker could not send
        three = (c04.req(1) + c04.req(2)).decode("latin-1")
        S.append((f"three-requests,last-needs-flush[{tag}]", dict(pre=three, segments=[(c04.req(3).decode("latin-1"), None)], workers=1, poll2=poll2, window=300, drains=[None], programs={"/r3": dict(body=big)}), 1 if q else 2))
    # send_bytes thresholds (deprecated but supported setting)
    S.append(("send_bytes=50,small-response", dict(pre=two, workers=1, adj=dict(send_bytes=50), programs={"*": dict(body=["ab"])}), 1 if q else 2))
    S.append(("send_bytes=50,response=send_bytes", dict(pre=one, workers=1, adj=dict(send_bytes=50), window=10, drains=[None], programs={"/r1": dict(body=["y" * 50], cl=False)}), 1 if q else 2))
    # degenerate settings: watermark 0; watermark below send_bytes with a backlog in between
    S.append(("watermark=0", dict(pre=one, workers=1, window=20, drains=[None], adj=dict(outbuf_high_watermark=0), programs={"/r1": dict(body=big, cl=False)}), 1))
    S.append(("watermark<send_bytes", dict(pre=one, workers=1, window=60, drains=[None], adj=dict(outbuf_high_watermark=8, send_bytes=100), programs={"/r1": dict(body=["y" * 8] * 3, cl=False)}), 1))
    S.append(("watermark<send_bytes,trickling client", dict(pre=one, workers=1, window=60, drains=[20, None], adj=dict(outbuf_high_watermark=8, send_bytes=100), programs={"/r1": dict(body=["y" * 8] * 3, cl=False)}), 1 if q else 2))
    S.append(("watermark<send_bytes,trickling client,request read by the I/O thread", dict(pre="", segments=[(one, None), ("@drain:20", None), ("@drain:None", None)], workers=1, window=60, adj=dict(outbuf_high_watermark=8, send_bytes=100), programs={"/r1": dict(body=["y" * 8] * 3, cl=False)}), 1 if q else 2))
    # the next request is already in the socket when the worker finishes the first one (lookahead)
    S.append(("second-request-already-buffered,lookahead=1", dict(pre=one, inq=c04.req(2).decode("latin-1"), workers=1, lookahead=1), 1 if q else 2))
    S.append(("second-request-already-buffered,lookahead=1,2 workers", dict(pre=one, inq=c04.req(2).decode("latin-1"), workers=2, lookahead=1), 1 if q else 2))
    # close decided by the worker (Connection: close): the loop must be woken to close
    S.append(("close-after-response", dict(pre=c04.req(1, extra=["Connection: close"]).decode("latin-1"), workers=1), 2))
    S.append(("close-after-response,window", dict(pre=c04.req(1, extra=["Connection: close"]).decode("latin-1"), workers=1, window=30, drains=[None], programs={"/r1": dict(body=big)}), 1 if q else 2))
    # worker pool wake-up: request arrives while all workers idle
    S.append(("arrives-later,2-workers", dict(pre="", segments=[(one, None)], workers=2), 1 if q else 2))
    S.append(("arrives-later,lookahead", dict(pre=one, segments=[(c04.req(2).decode("latin-1"), None)], workers=1, lookahead=1, release=["go"], programs={"/r1": dict(body=["ok"], block="go")}), 1 if q else 2))
    return S


def main(tier, only=None):
    run = Run("C05", tier)
    run.cov["rule"] = c04.RULE + "; poll timeout infinite; oracle evaluated at quiescence"
    run.assume(*c04.ASSUME)
    run.assume("select/poll are called with timeout=None: nothing but readiness of a descriptor passed to that very call wakes the loop")
    for name, params, bound in scenarios(tier):
        if only and only not in name:
            continue
        explore.explore(Wake(**params), bound, run, part=name)
    return run.finish()


def replay(rep):
    r = explore.replay(rep)
    return 1 if r.viol else 0
