"""C18  Connection limit holds; idle connections are reaped, busy ones never.

E2: explicit-state search over histories of connect / send-partial /
send-complete / client-reads / client-stalls / app-finishes / clock-advance
events on the real server, channels and I/O loop under the virtual clock
(tasks are run only by the app-finishes event, so a request can stay "in
progress" for any length of time); plus one E1 scenario for the window at the
end of service().
"""
import multiprocessing as mp
import random

from .. import chan, common, explore, seq, venv
from ..evidence import Run
from . import c04

REQ = b"GET /x HTTP/1.1\r\nHost: h\r\n\r\n"
REQ_CLOSE = b"GET /x HTTP/1.1\r\nHost: h\r\nConnection: close\r\n\r\n"
HALF = 12


class Sim:
    """One history replayed on a fresh server."""

    def __init__(self, cfg):
        self.cfg = cfg
        kw = dict(connection_limit=cfg["limit"], channel_timeout=cfg["timeout"], cleanup_interval=cfg["cleanup"])
        self.env = seq.Env(self.app, **kw)
        self.env.auto_run = False
        self.W = self.env.W
        self.listeners = [self.env.listener]
        if cfg.get("listeners", 1) == 2:
            # a second listening socket on the same map / dispatcher (as create_server does for several listen addresses)
            import waitress.server
            from .. import venv as _venv

            l2 = _venv.VSock(self.W, "listen2", listening=True)
            self.server2 = waitress.server.TcpWSGIServer(self.env._app, map=self.env.map, _sock=l2, dispatcher=self.env.disp, adj=self.env.adj)
            self.listeners.append(l2)
        self.conns = []  # dict(conn, sent, last_io (ground truth), busy_since)
        self.viol = []
        self.t0 = self.W.now
        self.served = 0

    def app(self, environ, start_response):
        self.served += 1
        body = b"r" * 40
        start_response("200 OK", [("Content-Length", str(len(body)))])
        return [body]

    def io_marks(self):
        """ground truth: note the time of the last byte moved on each connection"""
        for c in self.conns:
            n = (len(c["conn"].sock.out), c["conn"].sock.recv_calls)
            if n != c["mark"]:
                c["mark"] = n
                c["last_io"] = self.W.now

    def step(self, ev):
        env = self.env
        env.activate()
        kind = ev[0]
        self.before = [(c["conn"].sock.closed, c["last_io"], c.get("busy_at"), c["opened"], len(c["conn"].sock.out), bool(c["conn"].ch is not None and c["conn"].ch.will_close)) for c in self.conns]
        if kind == "connect":
            which = ev[1] if len(ev) > 1 else 0
            if which == 0:
                c = env.connect(pump=False)
            else:
                from .. import venv as _venv

                env.nconn += 1
                sk = _venv.VSock(self.W, f"c{env.nconn}", ("127.0.0.1", 41000 + env.nconn))
                self.listeners[1].backlog.append(sk)
                c = seq.Conn(env, sk)
            self.conns.append(dict(conn=c, sent=0, last_io=self.W.now, mark=(0, 0), opened=self.W.now))
        elif kind in ("partial", "complete", "closing", "reads", "stalls", "trickle"):
            if ev[1] >= len(self.conns):
                return False
            c = self.conns[ev[1]]
            sock = c["conn"].sock
            if sock.closed:
                return False
            if kind == "partial":
                if c["sent"] != 0:
                    return False
                sock.client_send(REQ[:HALF])
                c["sent"] = HALF
            elif kind == "complete":
                if c["sent"] >= len(REQ):
                    c["sent"] = 0  # a new request on the same connection
                sock.client_send(REQ[c["sent"] :])
                c["sent"] = len(REQ)
            elif kind == "closing":
                # a whole request that asks for the connection to be closed after the response
                if c["sent"] not in (0, len(REQ)):
                    return False
                sock.client_send(REQ_CLOSE)
                c["sent"] = len(REQ)
                c["closing"] = True  # the server will close this connection itself once that request is answered
            elif kind == "reads":
                if sock.window is None:
                    return False
                sock.client_drain(None)
            elif kind == "stalls":
                if sock.window == 0:
                    return False
                sock.window = 0
            elif kind == "trickle":
                # a slow but steady reader: room for a few more bytes
                if sock.window is None:
                    return False
                sock.client_drain(16)
        elif kind == "finish":
            if not env.disp.queue:
                return False
            env.disp.run_all(env, limit=1)
        elif kind == "tick":
            self.W.now += ev[1]
        env.pump()
        self.io_marks()
        self.check(ev)
        return True

    def check(self, ev):
        env, cfg = self.env, self.cfg
        limit = cfg["limit"]
        m = env.map
        extra = len(self.listeners) - 1
        if len(m) > limit + extra:
            self.viol.append(("limit-exceeded", f"{len(m)} descriptors in the socket map, connection_limit={limit} (+{extra} for additional listening sockets)"))
        backlog = sum(len(l.backlog) for l in self.listeners)
        if backlog and len(m) < limit:
            self.viol.append(("not-accepting-below-limit", f"{backlog} connection(s) waiting although only {len(m)} of {limit} descriptors are in use"))
        now = self.W.now
        slack = cfg["cleanup"] + 1  # one cleanup interval plus one loop period (events are >= 1 s apart)
        for i, c in enumerate(self.conns):
            conn = c["conn"]
            sock = conn.sock
            ch = conn.ch
            accepted = sock.fd in m or sock.closed
            if not accepted:
                continue
            if "accepted_at" not in c:
                c["accepted_at"] = now
                c["opened"] = now
                c["last_io"] = now  # the time spent in the listen queue is not idle time (and must not leak into the state key)
            busy = ch is not None and bool(ch.requests)
            if busy:
                if ch.will_close:
                    self.viol.append(("busy-connection-marked", f"connection {i} has a request in progress but was marked for closing by maintenance"))
                c["busy_at"] = now
                continue
            if sock.closed:
                if c.get("busy_at") == now and ev[0] == "tick":
                    self.viol.append(("busy-connection-closed", f"connection {i} closed while its request was in progress"))
                if i < len(self.before) and not self.before[i][0] and not c.get("closing"):
                    # closed by the server during this step: it must have been idle for channel_timeout
                    was_closed, last_io, busy_at, opened = self.before[i][:4]
                    active = max(last_io, busy_at or 0, opened)  # as of the beginning of this step
                    if now - active < cfg["timeout"]:
                        self.viol.append(("active-connection-reaped", f"connection {i} closed by the server although it moved data / was accepted only {now - active:.0f}s ago (channel_timeout={cfg['timeout']})"))
                continue
            if i < len(self.before) and self.before[i][5] and len(sock.out) > self.before[i][4]:
                # marked for closing before this step, and the socket took bytes during it: the close is
                # performed on exactly such a writable event
                self.viol.append(("marked-connection-survives-writable-event", f"connection {i} was marked for closing, the peer then read {len(sock.out) - self.before[i][4]} bytes, and the connection is still open"))
            idle_since = max(c["last_io"], c.get("busy_at", 0), c["opened"])
            if now - idle_since > cfg["timeout"] + slack:
                pend = ch.total_outbufs_len if ch is not None else 0
                key = "idle-not-reaped:peer-not-reading" if sock.window == 0 else "idle-not-reaped"
                self.viol.append((key, f"connection {i} idle for {now - idle_since:.0f}s (channel_timeout={cfg['timeout']}, cleanup_interval={cfg['cleanup']}), will_close={ch.will_close if ch else None}, pending output={pend}, peer reading={sock.window != 0}"))

    def key(self):
        env = self.env
        now = self.W.now
        cap = self.cfg["timeout"] + 2 * self.cfg["cleanup"] + 3
        parts = []
        for c in self.conns:
            conn = c["conn"]
            ch = conn.ch
            sock = conn.sock
            if sock.closed:
                parts.append(("closed",))
                continue
            if ch is None:
                parts.append(("backlog", c["sent"], bool(c.get("closing")), bytes(sock.inq), sock.window))
                continue
            parts.append((
                "open", c["sent"], bool(c.get("closing")), tuple(r.headers.get("CONNECTION", "") for r in ch.requests), bytes(sock.inq), ch.request is not None, ch.will_close, ch.close_when_flushed, ch.total_outbufs_len, sock.window,
                min(int(now - ch.last_activity), cap), min(int(now - c["last_io"]), cap), min(int(now - c.get("busy_at", -10 ** 9)), cap), len(sock.inq),
            ))
        nc = env.server.next_channel_cleanup - now
        s2 = getattr(self, "server2", None)
        extra = (s2.in_connection_overflow, max(min(int(s2.next_channel_cleanup - now), cap), -1), tuple(len(l.backlog) for l in self.listeners)) if s2 is not None else ()
        # whose task is next matters (the finish event runs the head of the dispatcher queue)
        order = tuple(next((i for i, c in enumerate(self.conns) if c["conn"].ch is t), -1) for t in env.disp.queue)
        return (tuple(parts), len(env.map), env.server.in_connection_overflow, max(min(int(nc), cap), -1), order, extra)

    def close(self):
        self.env.close()


def alphabet(cfg, nconn):
    evs = [("connect",)]
    if cfg.get("listeners", 1) == 2:
        evs.append(("connect", 1))
    for i in range(nconn):
        evs += [("partial", i), ("complete", i), ("closing", i), ("reads", i), ("stalls", i), ("trickle", i)]
    evs.append(("finish",))
    for d in sorted({1, cfg["cleanup"], cfg["timeout"], cfg["timeout"] + 1}):
        evs.append(("tick", d))
    return evs


def replay_history(cfg, hist):
    sim = Sim(cfg)
    ok = True
    try:
        for ev in hist:
            if not sim.step(tuple(ev)):
                ok = False
                break
        return ok, sim.key() if ok else None, list(sim.viol), len(sim.conns)
    finally:
        sim.close()


def _expand(args):
    cfg, hists = args
    out = []
    for h in hists:
        ok, _, _, nconn = replay_history(cfg, h)
        if not ok:
            continue
        for ev in alphabet(cfg, min(nconn, cfg["maxconn"])):
            if ev[0] == "connect" and nconn >= cfg["maxconn"]:
                continue
            hh = h + (ev,)
            ok2, key, viol, _ = replay_history(cfg, hh)
            if ok2:
                out.append((hh, key, viol))
    return out


def _succ_keys(args):
    """successor keys of one history under every event (for the merge-soundness probe)"""
    cfg, h = args
    ok, _, _, nconn = replay_history(cfg, h)
    out = {}
    for ev in alphabet(cfg, min(nconn, cfg["maxconn"])):
        if ev[0] == "connect" and nconn >= cfg["maxconn"]:
            continue
        ok2, key, _, _ = replay_history(cfg, h + (ev,))
        out[ev] = key if ok2 else None
    return h, out


PROBE_DEPTH = 4


def bfs(run, cfg, depth, pool, rnd, probe=False):
    seen = {}
    second = {}  # another history reaching the same abstract state (first PROBE_DEPTH levels)
    frontier = [()]
    trans = 0
    vio = {}
    for d in range(depth):
        rnd.shuffle(frontier)
        chunks = [frontier[i : i + 6] for i in range(0, len(frontier), 6)]
        nxt = []
        for res in pool.imap(_expand, [(cfg, c) for c in chunks]):  # ordered: the representative history kept per state must not depend on worker timing
            for hh, key, viol in res:
                trans += 1
                for k, what in viol:
                    if k not in vio or len(hh) < len(vio[k][1]):
                        vio[k] = (what, hh)
                if key not in seen:
                    seen[key] = hh
                    nxt.append(hh)
                elif probe and d < PROBE_DEPTH and key not in second and seen[key] != hh:
                    second[key] = hh
        frontier = nxt
    if probe and second:
        # merge-soundness probe: two histories merged into one state must have the same successor
        # states under every event (otherwise the key drops something the future depends on)
        pairs = [(seen[k], second[k]) for k in sorted(second, key=repr)]
        todo = [(cfg, h) for pr in pairs for h in pr]
        succ = dict(pool.imap(_succ_keys, todo, chunksize=4))
        bad = [(a, b) for a, b in pairs if succ[a] != succ[b]]
        run.cov.setdefault("merge_probe", {})[f"limit={cfg['limit']},listeners={cfg.get('listeners', 1)}"] = {"pairs": len(pairs), "different_futures": len(bad)}
        if bad:
            a, b = bad[0]
            ev = next(e for e in succ[a] if succ[a][e] != succ[b].get(e))
            run.violation("harness:merge-unsound", f"histories {a} and {b} are merged but differ after {ev}: {succ[a][ev]} vs {succ[b].get(ev)}", {"cfg": cfg, "history": [list(e) for e in a]})
    name = f"limit={cfg['limit']},timeout={cfg['timeout']},cleanup={cfg['cleanup']},listeners={cfg.get('listeners', 1)}"
    run.add(states=len(seen), transitions=trans, traces_validated_against_impl=trans, evaluations=trans, distinct_nontrivial=len(seen))
    run.part(name, depth=depth, states=len(seen), transitions=trans)
    if seen:
        run.sample({"config": cfg, "history": [list(e) for e in list(seen.values())[len(seen) // 2]]})
    for k, (what, hh) in sorted(vio.items()):
        run.violation(k, f"[{name}] {what} | history={[list(e) for e in hh]}", {"cfg": cfg, "history": [list(e) for e in hh]})


# ---------------------------------------------------------------------------
# E1: maintenance against the tail of service()
# ---------------------------------------------------------------------------
class Tail(c04.Pipe):
    """The application has run for longer than channel_timeout; the worker is
    finishing the request while a maintenance pass is due."""

    name = "tail"
    monitor_extra = ("server",)

    def configure(self, S):
        super().configure(S)

    def build(self, S, W):
        W.observe_time = True
        ctx = super().build(S, W)
        return ctx

    def oracle(self, ctx, S, W, reason):
        v = []
        ch, sock, ref = ctx["ch"], ctx["sock"], ctx["ref"]
        for name, exc, tb in S.crashed:
            v.append((f"thread-died:{name.split('-')[0]}", f"{name} died: {exc}"))
        if reason != "quiescent":
            v.append(("end:" + reason, f"execution ended with {reason}"))
        out = bytes(sock.out)
        a, b = c04.finals(out, 1), c04.finals(ref[0], 1)
        strip = lambda rs: [(r[0], r[2], r[3]) for r in rs] if rs is not None else None  # the Date field follows the clock
        if strip(a) != strip(b):
            v.append(("reaped-while-finishing", f"the connection was reaped while its request was finishing: client received {len(out)} of {len(ref[0])} bytes, closed={sock.closed}"))
        elif sock.closed:
            v.append(("reaped-right-after-long-request", "the response was delivered but the connection was closed by maintenance although it had just been active"))
        return v


def main(tier, only=None):
    run = Run("C18", tier)
    rnd = random.Random(common.SEED)
    run.cov["rule"] = (
        "E2: BFS over event histories {connect, partial, complete, reads, stalls, finish, tick(1|cleanup|timeout|timeout+1)} on the real server under the virtual clock, tasks run only by 'finish'; "
        "states merged on (per-connection phase, flags, ages capped at timeout+2*cleanup+3, pending bytes, map size, overflow flag, time to next cleanup); invariants checked in every state; "
        "E1: " + c04.RULE
    )
    run.assume("ages are capped beyond every threshold the server compares against (translation invariance of time)", "the I/O loop is run to quiescence after every event (loop period <= smallest clock step, 1 s)")
    depth = 8 if tier == "quick" else 10
    cfgs = [
        dict(limit=4, timeout=2, cleanup=1, maxconn=3),
        dict(limit=3, timeout=2, cleanup=1, maxconn=2),
        dict(limit=100, timeout=120, cleanup=30, maxconn=2),
    ]
    cfgs.append(dict(limit=6, timeout=2, cleanup=1, maxconn=3, listeners=2))
    if tier == "thorough":
        cfgs.append(dict(limit=4, timeout=2, cleanup=30, maxconn=3))
        cfgs.append(dict(limit=5, timeout=2, cleanup=1, maxconn=3, listeners=2))
    if not only or only == "seq":
        ctx = mp.get_context("fork")
        with ctx.Pool(common.NPROC) as pool:
            for cfg in cfgs:
                bfs(run, cfg, depth if (cfg["limit"] < 100 and cfg.get("listeners", 1) == 1) else depth - 1, pool, rnd, probe=(tier == "thorough" or cfg is cfgs[0] or cfg.get("listeners", 1) == 2))
    if not only or only == "e1":
        one = c04.req(1).decode("latin-1")
        # the request is pre-queued; the clock is advanced past the timeout while the application runs
        params = dict(pre=one, workers=1, adj=dict(channel_timeout=2, cleanup_interval=1), segments=[("@clock:+10", None), ("@release:go", None)], programs={"/r1": dict(body=["ok"], block="go")})
        explore.explore(Tail(**params), 1 if tier == "quick" else 2, run, part="tail-of-service", prefix_keys=False)
        # same, but the client is slow: part of the response is still pending when the worker finishes
        params = dict(pre=one, workers=1, window=0, adj=dict(channel_timeout=2, cleanup_interval=1), segments=[("@clock:+10", None), ("@release:go", None)], drains=[50, None],
                      programs={"/r1": dict(body=["y" * 40, "z" * 40], block="go")})
        explore.explore(Tail(**params), 1 if tier == "quick" else 2, run, part="tail-of-service,slow-client", prefix_keys=False)
    return run.finish()


def replay(rep):
    if "scenario" in rep:
        r = explore.replay(rep)
        return 1 if r.viol else 0
    ok, key, viol, _ = replay_history(rep["cfg"], [tuple(e) for e in rep["history"]])
    for k, w in viol:
        print("VIOLATION-DETAIL", k, w)
    return 1 if viol else 0
