"""C19  Expect: 100-continue is answered correctly and the request is never lost.

E2/E5 (inputs, segmentations): all pipelines of <= 3 requests over six message
kinds, delivered (a) in one read, (b) by a *waiting* client that withholds each
expecting request's body until the interim response (or a final error) has
arrived, (c) byte by byte, (d) under all segmentations (cut graph) for
pipelines of <= 2.
E1 (schedules): the worker that finishes the preceding request against the
I/O thread receiving the expecting request.
"""
import hashlib
import itertools
import multiprocessing as mp
import random

from .. import apps, common, explore, oracle, refhttp, seq
from ..evidence import Run
from . import c04

KINDS = ["plain", "post", "expect-body", "expect-nobody", "expect-refused", "expect-10", "expect-caps", "expect-chunked"]
WITH_BODY = ("expect-body", "expect-caps", "expect-chunked")  # the expectation token is case-insensitive (RFC 9110 10.1.1)
_env = {}


def get_env():
    e = _env.get(0)
    if e is None:
        e = seq.Env(None)
        e.app = apps.echo_app(e)
        _env[0] = e
    return e


def message(kind, i):
    """-> (head bytes, body bytes)"""
    idh = f"X-Id: {i}\r\n"
    if kind == "plain":
        return (f"GET /m{i} HTTP/1.1\r\nHost: h\r\n{idh}\r\n").encode(), b""
    if kind == "post":
        return (f"POST /m{i} HTTP/1.1\r\nHost: h\r\n{idh}Content-Length: 4\r\n\r\n").encode(), b"abcd"
    if kind == "expect-body":
        return (f"POST /m{i} HTTP/1.1\r\nHost: h\r\n{idh}Expect: 100-continue\r\nContent-Length: 5\r\n\r\n").encode(), b"hello"
    if kind == "expect-caps":
        return (f"POST /m{i} HTTP/1.1\r\nHost: h\r\n{idh}Expect: 100-Continue\r\nContent-Length: 5\r\n\r\n").encode(), b"hello"
    if kind == "expect-chunked":
        return (f"POST /m{i} HTTP/1.1\r\nHost: h\r\n{idh}Expect: 100-continue\r\nTransfer-Encoding: chunked\r\n\r\n").encode(), b"5\r\nhello\r\n0\r\n\r\n"
    if kind == "expect-nobody":
        return (f"POST /m{i} HTTP/1.1\r\nHost: h\r\n{idh}Expect: 100-continue\r\nX-Own: {i}\r\n\r\n").encode(), b""
    if kind == "expect-refused":
        return (f"POST /m{i} HTTP/1.1\r\nHost: h\r\n{idh}Expect: 100-continue\r\nContent-Length: x5\r\n\r\n").encode(), b"hello"
    if kind == "expect-10":
        return (f"POST /m{i} HTTP/1.0\r\nHost: h\r\n{idh}Connection: keep-alive\r\nExpect: 100-continue\r\nContent-Length: 5\r\n\r\n").encode(), b"hello"
    raise ValueError(kind)


def analyse(wire, closed, ncalls_methods):
    """-> list per final response: (status, number of 100s right before it) or WireError text"""
    rs = refhttp.parse_responses(wire, ncalls_methods, closed=closed)
    out = []
    pending = 0
    for r in rs:
        if r.status == 100:
            pending += 1
        elif r.status < 200:
            out.append(("odd-interim", r.status))
        else:
            out.append((r.status, pending, r.complete))
            pending = 0
    return out, pending


def judge_pipeline(kinds, wire, closed, calls, mode, escaped):
    v = []
    for e in escaped:
        v.append((f"escaped:{e[1]}", str(e)))
    try:
        finals, trailing = analyse(wire, closed, [b"POST"] * (len(kinds) + 1))
    except refhttp.WireError as e:
        return [("wire-unparseable", f"{e}; wire={wire[:200]!r}")]
    # which requests are served: up to and including the first refused / closing one
    expect_served = []
    for i, k in enumerate(kinds):
        expect_served.append(i)
        if k == "expect-refused":
            break
    if len(finals) != len(expect_served):
        v.append(("response-count", f"kinds={kinds} mode={mode}: {len(finals)} final responses, expected {len(expect_served)}; wire={wire[:300]!r}"))
        return v
    if trailing:
        v.append(("interim-after-last-final", f"kinds={kinds} mode={mode}: {trailing} interim response(s) after the last final response"))
    for i, f in zip(expect_served, finals):
        k = kinds[i]
        if f[0] == "odd-interim":
            v.append(("odd-interim", f"kinds={kinds}: interim {f[1]}"))
            continue
        status, n100, complete = f
        if k in ("plain", "post", "expect-10"):
            if n100:
                v.append((f"interim-for-{k}", f"kinds={kinds} mode={mode}: {n100} '100 Continue' sent for request {i} which did not ask (or is HTTP/1.0)"))
            if status != 200:
                v.append(("status", f"kinds={kinds} mode={mode}: request {i} ({k}) answered {status}"))
        elif k == "expect-refused":
            if status != 400:
                v.append(("status", f"kinds={kinds} mode={mode}: refused request answered {status}"))
            if n100:
                # "... or is refused outright with a final error response": the framing error is known when
                # the header block ends, so nothing may invite the client to send the body first
                v.append(("interim-for-refused", f"kinds={kinds} mode={mode}: {n100} '100 Continue' sent for request {i}, which is then refused with {status}"))
        else:
            if status != 200:
                v.append(("status", f"kinds={kinds} mode={mode}: request {i} ({k}) answered {status}"))
            if n100 > 1:
                v.append(("interim-twice", f"kinds={kinds} mode={mode}: {n100} interim responses for request {i}"))
            if mode == "waiting" and k in WITH_BODY and n100 != 1:
                v.append(("client-left-waiting" if n100 == 0 else "interim-twice", f"kinds={kinds}: waiting client got {n100} interim responses for request {i}"))
    # executed exactly once, with its own header fields only
    want_calls = [i for i in expect_served if kinds[i] != "expect-refused"]
    got_ids = [dict(c[3]).get("HTTP_X_ID") for c in calls]
    if got_ids != [str(i) for i in want_calls]:
        v.append(("execution", f"kinds={kinds} mode={mode}: executed {got_ids}, expected {want_calls}"))
    for c in calls:
        h = dict(c[3])
        i = int(h.get("HTTP_X_ID", -1))
        own = {"HTTP_HOST", "HTTP_X_ID", "HTTP_EXPECT", "CONTENT_LENGTH", "HTTP_X_OWN", "HTTP_CONNECTION"}
        if set(h) - own:
            v.append(("foreign-header", f"kinds={kinds} mode={mode}: request {i} saw {sorted(set(h) - own)}"))
        if "HTTP_X_OWN" in h and h["HTTP_X_OWN"] != str(i):
            v.append(("foreign-header", f"kinds={kinds} mode={mode}: request {i} saw X-Own {h['HTTP_X_OWN']!r}"))
        _, body = message(kinds[i], i) if 0 <= i < len(kinds) else (b"", b"")
        if 0 <= i < len(kinds) and kinds[i] == "expect-chunked":
            body = b"hello"  # the application sees the decoded body
        if c[4] != body:
            v.append(("body", f"kinds={kinds} mode={mode}: request {i} body {c[4]!r}, expected {body!r}"))
    return v


def run_pipeline(kinds, mode):
    env = get_env()
    env.activate()
    del env.calls[:]
    del env.escaped[:]
    c = env.connect()
    msgs = [message(k, i) for i, k in enumerate(kinds)]
    v = []
    if mode == "one-read":
        c.send(b"".join(h + b for h, b in msgs))
    elif mode == "bytewise":
        data = b"".join(h + b for h, b in msgs)
        for i in range(len(data)):
            c.send(data[i : i + 1])
    elif mode == "waiting":
        for i, (h, b) in enumerate(msgs):
            if c.closed:
                break
            before = c.wire.count(b"100 Continue")
            c.send(h[:-1])
            if c.wire.count(b"100 Continue") != before:
                v.append(("interim-before-head-complete", f"kinds={kinds}: interim response sent before the header block of request {i} was complete"))
            c.send(h[-1:])
            if kinds[i] in WITH_BODY and not c.closed:
                if c.wire.count(b"100 Continue") != before + 1:
                    v.append(("client-left-waiting", f"kinds={kinds}: no '100 Continue' after the head of request {i} although every earlier request is finished; wire tail={c.wire[-80:]!r}"))
            if b and not c.closed:
                c.send(b[:2])
                c.send(b[2:])
    res = (c.wire, c.closed, list(env.calls), list(env.escaped))
    if not c.closed and c.ch is not None:
        c.ch.handle_close()
    return res, v


def _batch(items):
    out = []
    classes = set()
    for kinds, mode in items:
        (wire, closed, calls, esc), v0 = run_pipeline(kinds, mode)
        v = v0 + judge_pipeline(kinds, wire, closed, calls, mode, esc)
        classes.add((tuple(kinds), mode, wire.count(b"100 Continue"), closed))
        for key, what in v:
            out.append((key, what, {"kinds": list(kinds), "mode": mode}))
    return len(items), classes, out


def _cutgraph(kinds):
    """all segmentations of the pipeline's byte stream"""
    env = get_env()
    env.activate()
    stream = b"".join(h + b for h, b in (message(k, i) for i, k in enumerate(kinds)))
    n = len(stream)
    del env.calls[:]
    del env.escaped[:]
    cur = env.connect()
    root = env.snapshot(cur)
    seen = {(0, hashlib.blake2b(root, digest_size=12).digest())}
    frontier = [(0, root)]
    edges = 0
    out = []
    outcomes = set()
    while frontier:
        nxt = []
        for off, blob in frontier:
            for l in range(1, n - off + 1):
                cur = env.restore(blob, old=cur)
                del env.escaped[:]
                cur.send(stream[off : off + l])
                edges += 1
                o2 = off + l
                if o2 == n:
                    key = (cur.wire, cur.closed, tuple(env.calls))
                    if key not in outcomes:
                        outcomes.add(key)
                        for k, w in judge_pipeline(kinds, cur.wire, cur.closed, list(env.calls), "segmented", list(env.escaped)):
                            out.append((k, w, {"kinds": list(kinds), "mode": "segmented"}))
                    continue
                b2 = env.snapshot(cur)
                hk = (o2, hashlib.blake2b(b2, digest_size=12).digest())
                if hk not in seen:
                    seen.add(hk)
                    nxt.append((o2, b2))
        frontier = nxt
    if not cur.closed and cur.ch is not None:
        cur.ch.handle_close()
    return len(seen), edges, len(outcomes), out


# ---------------------------------------------------------------------------
# E1 part
# ---------------------------------------------------------------------------
class Expect(c04.Pipe):
    name = "expect"

    def oracle(self, ctx, S, W, reason):
        v = list(super().oracle(ctx, S, W, reason))
        sock = ctx["sock"]
        out = bytes(sock.out)
        if S.env_pos < len(S.env_events):
            v.append(("client-left-waiting", f"the client never saw '100 Continue' (nor a final error) and never sent its body; wire={out[-120:]!r}"))
            return v
        kinds = self.params["kinds"]
        try:
            finals, trailing = analyse(out, True, [b"POST"] * (len(kinds) + 1))
        except refhttp.WireError as e:
            v.append(("wire-unparseable", str(e)))
            return v
        for i, f in enumerate(finals):
            if f[0] == "odd-interim":
                continue
            status, n100, _ = f
            k = kinds[i] if i < len(kinds) else "plain"
            if k == "expect-body" and n100 != 1:
                v.append(("interim-count", f"request {i}: {n100} interim responses (exactly one expected: its body was withheld)"))
            if k == "expect-nobody" and n100 > 1:
                v.append(("interim-count", f"request {i}: {n100} interim responses"))
            if k in ("plain", "post") and n100:
                v.append(("interim-for-plain", f"request {i}: {n100} interim responses"))
        if trailing:
            v.append(("interim-after-last-final", f"{trailing} interim response(s) after the last final response"))
        return v


def e1_scenarios(tier):
    q = tier == "quick"
    R = c04.req
    exp_head = R(2, "POST", extra=["Expect: 100-continue", "Content-Length: 5"])
    exp_nobody = R(2, "POST", extra=["Expect: 100-continue"])
    S = []
    for la in (0, 1):
        S.append((f"GET,expect-body[la={la}]", dict(pre=(R(1) + exp_head).decode("latin-1"), segments=[("hello", "after100")], workers=1, lookahead=la, kinds=["plain", "expect-body"]), 2 if (la == 0 or not q) else 1))
    S.append(("GET,expect-body[head arrives later]", dict(pre=R(1).decode("latin-1"), segments=[(exp_head.decode("latin-1"), None), ("@release:go", None), ("hello", "after100")], workers=1, lookahead=1, programs={"/r1": dict(body=["ok"], block="go")}, kinds=["plain", "expect-body"]), 1 if q else 2))
    # two complete requests queued in front of the expecting one (needs lookahead 2)
    S.append(("GET,GET,expect-body[la=2]", dict(pre=(R(1) + R(2) + R(3, "POST", extra=["Expect: 100-continue", "Content-Length: 5"])).decode("latin-1"), segments=[("hello", "after100")], workers=1, lookahead=2, kinds=["plain", "plain", "expect-body"]), 1))
    S.append(("GET,GET,expect-body[la=2,2 workers]", dict(pre=(R(1) + R(2) + R(3, "POST", extra=["Expect: 100-continue", "Content-Length: 5"])).decode("latin-1"), segments=[("hello", "after100")], workers=2, lookahead=2, kinds=["plain", "plain", "expect-body"]), 1))
    # the expecting head arrives while the worker is finishing the preceding request
    S.append(("GET,expect-body[head races the end of service]", dict(pre=R(1).decode("latin-1"), segments=[(exp_head.decode("latin-1"), None), ("hello", "after100")], workers=1, lookahead=1, kinds=["plain", "expect-body"]), 2))
    S.append(("expect-body first[arrives via I/O thread]", dict(pre="", segments=[(exp_head.decode("latin-1"), None), ("hello", "after100")], workers=1, lookahead=0, kinds=["plain", "expect-body"][1:]), 1 if q else 2))
    S.append(("GET,expect-nobody", dict(pre=(R(1) + exp_nobody).decode("latin-1"), workers=1, lookahead=0, kinds=["plain", "expect-nobody"]), 1 if q else 2))
    S.append(("GET,expect-body,GET", dict(pre=(R(1) + exp_head).decode("latin-1"), segments=[("hello" + R(3).decode("latin-1"), "after100")], workers=1, lookahead=0, kinds=["plain", "expect-body", "plain"]), 1 if q else 2))
    # the preceding response is still spread over several output buffers (tiny watermark, slow client)
    # when the worker sends the interim response: it must go behind all of it
    for drains in ([3] * 16, [5] * 10):
        segs = [(f"@drain:{d}", None) for d in drains] + [("@drain:None", None), ("hello", "after100")]
        S.append((f"GET(big),expect-body[several outbufs pending,drains={drains[0]}]", dict(
            pre=(R(1) + exp_head).decode("latin-1"), segments=segs, workers=1, lookahead=1, window=100,
            adj=dict(outbuf_high_watermark=8, send_bytes=1), programs={"/r1": dict(body=["12345678", "abcdefgh", "ijklmnop", "qr"])}, kinds=["plain", "expect-body"]), 1))
    return S


def main(tier, only=None):
    run = Run("C19", tier)
    rnd = random.Random(common.SEED)
    run.cov["rule"] = (
        "sequential: all pipelines of <= 3 requests over {plain, post, expect-body, expect-nobody, expect-refused, expect-10, expect-caps (100-Continue), expect-chunked} x {one read, waiting client, byte-wise}; all segmentations (cut graph) of pipelines of <= 2; "
        "schedules: " + c04.RULE
    )
    run.assume(*c04.ASSUME)
    run.assume("a waiting client withholds the body until it has seen '100 Continue' or a final response")
    pipes = [list(t) for n in (1, 2, 3) for t in itertools.product(KINDS, repeat=n)]
    items = [(p, m) for p in pipes for m in ("one-read", "waiting", "bytewise")]
    rnd.shuffle(items)
    batches = [items[i : i + 60] for i in range(0, len(items), 60)]
    graphs = [list(t) for n in (1, 2) for t in itertools.product(KINDS, repeat=n)]
    if tier == "quick":
        graphs = [g for g in graphs if len(g) == 1 or (("expect-body" in g or "expect-nobody" in g) and "expect-caps" not in g and "expect-chunked" not in g)]
    ctx = mp.get_context("fork")
    viol = []
    n = 0
    classes = set()
    nodes = edges = outs = 0
    if not only or only == "seq":
        with ctx.Pool(common.NPROC) as pool:
            r1 = pool.imap_unordered(_batch, batches)
            r2 = pool.imap_unordered(_cutgraph, graphs)
            for k, cl, out in r1:
                n += k
                classes |= cl
                viol += out
            for a, b, c, out in r2:
                nodes += a
                edges += b
                outs += c
                viol += out
        run.add(states=len(classes) + nodes, transitions=n + edges, traces_validated_against_impl=n + edges, evaluations=n + edges, distinct_nontrivial=len(classes) + nodes)
        run.part("pipelines", cases=n, pipelines=len(pipes))
        run.part("cut-graphs", pipelines=len(graphs), nodes=nodes, edges=edges, distinct_terminal_outcomes=outs)
        run.sample({"kinds": pipes[40], "mode": "waiting"})
        seen = {}
        for key, what, rep in viol:
            seen.setdefault(key, []).append((what, rep))
        for k, lst in sorted(seen.items()):
            lst.sort(key=lambda x: len(x[1]["kinds"]))
            what, rep = lst[0]
            run.violation(k, f"{what} [{len(lst)} cases]", rep)
    for name, params, bound in e1_scenarios(tier):
        if only and only not in name and only != "e1":
            continue
        if only == "seq":
            continue
        explore.explore(Expect(**params), bound, run, part=name)
    return run.finish()


def replay(rep):
    if "scenario" in rep:
        r = explore.replay(rep)
        return 1 if r.viol else 0
    (wire, closed, calls, esc), v0 = run_pipeline(rep["kinds"], rep["mode"] if rep["mode"] != "segmented" else "bytewise")
    print("wire:", wire)
    v = v0 + judge_pipeline(rep["kinds"], wire, closed, calls, rep["mode"], esc)
    for k, w in v:
        print("VIOLATION-DETAIL", k, w)
    return 1 if v else 0
