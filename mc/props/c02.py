"""C02  Parsing does not depend on how the byte stream is split across reads.

E2 cut-graph: for a stream s, nodes are (offset, exact concrete state of
channel + parser + receiver + buffers + wire + application calls), edges are
"the next read delivers l bytes" for every l.  Every one of the 2^(n-1)
segmentations is a path of this graph, so exploring all edges of all reachable
nodes covers all of them.  All terminal nodes must carry the same observation.
"""
import hashlib
import itertools
import multiprocessing as mp
import random

from .. import apps, common, gen, oracle, refhttp, seq
from ..evidence import Run

CONFIGS = {
    "default": {},
    "small": {"max_request_header_size": 64, "max_request_body_size": 12, "recv_bytes": 8192},
}
NODE_CAP = 20000

_envs = {}


def get_env(cfg):
    env = _envs.get(cfg)
    if env is None:
        env = seq.Env(None, **CONFIGS[cfg])
        env.app = apps.echo_app(env)
        _envs[cfg] = env
    return env


def observation(env, conn, stream_complete_msgs):
    """What C02 compares: application calls, responses, refusal, closure."""
    wire = conn.wire
    calls = tuple(env.calls)
    try:
        methods = [c[0].encode("latin-1") for c in calls] + [b"GET"]
        resps = refhttp.parse_responses(wire, methods, closed=conn.closed)
        rs = []
        for r in resps:
            if r.status == 100 and stream_complete_msgs:
                continue  # optional for requests that arrived complete (C19)
            rs.append((r.status, tuple(r.fields), r.body))
        w = tuple(rs)
    except refhttp.WireError:
        w = ("raw", wire)
    return (calls, w, conn.closed, tuple(env.escaped))


def cut_graph(cfg, stream):
    env = get_env(cfg)
    env.activate()
    n = len(stream)
    evs = refhttp.parse_requests(stream)
    complete_msgs = not (evs and isinstance(evs[-1], refhttp.Need))
    del env.calls[:]
    del env.escaped[:]
    cur = env.connect()
    root = env.snapshot(cur)
    seen = {(0, hashlib.blake2b(root, digest_size=12).digest())}
    frontier = [(0, root, ())]
    terminals = {}
    edges = 0
    capped = False
    while frontier:
        nxt = []
        for off, blob, path in frontier:
            for l in range(1, n - off + 1):
                cur = env.restore(blob, old=cur)
                del env.escaped[:]
                cur.send(stream[off : off + l])
                edges += 1
                o2 = off + l
                p2 = path + (l,)
                if o2 == n:
                    ob = observation(env, cur, complete_msgs)
                    if ob not in terminals:
                        terminals[ob] = p2
                    continue
                b2 = env.snapshot(cur)
                key = (o2, hashlib.blake2b(b2, digest_size=12).digest())
                if key not in seen:
                    if len(seen) >= NODE_CAP:
                        capped = True
                        continue
                    seen.add(key)
                    nxt.append((o2, b2, p2))
        frontier = nxt
    if not cur.closed and cur.ch is not None:
        cur.ch.handle_close()
    return len(seen), edges, terminals, capped


def explicit_cuts(cfg, stream):
    """Cross-check of the merging argument: all 2^(n-1) cut sets explicitly."""
    env = get_env(cfg)
    env.activate()
    n = len(stream)
    evs = refhttp.parse_requests(stream)
    complete_msgs = not (evs and isinstance(evs[-1], refhttp.Need))
    outs = {}
    count = 0
    for mask in range(1 << (n - 1)):
        del env.calls[:]
        del env.escaped[:]
        c = env.connect()
        start = 0
        for i in range(1, n):
            if mask >> (i - 1) & 1:
                c.send(stream[start:i])
                start = i
        c.send(stream[start:])
        count += 1
        ob = observation(env, c, complete_msgs)
        outs.setdefault(ob, mask)
        if not c.closed and c.ch is not None:
            c.ch.handle_close()
    return count, outs


def _work(args):
    kind, cfg, label, stream = args
    if kind == "graph":
        nodes, edges, terminals, capped = cut_graph(cfg, stream)
        return kind, cfg, label, stream, nodes, edges, [(ob, p) for ob, p in terminals.items()], capped
    count, outs = explicit_cuts(cfg, stream)
    # cross-check of the merging argument: the cut graph must reach exactly the same outcome set
    _, _, terminals, _ = cut_graph(cfg, stream)
    if set(outs) != set(terminals):
        raise RuntimeError(f"cut graph and explicit enumeration disagree on {stream!r}: {len(terminals)} vs {len(outs)} outcomes")
    return kind, cfg, label, stream, count, count, [(ob, m) for ob, m in outs.items()], False


def corpus(tier):
    """Short streams: valid, malformed, oversize, pipelined, expecting."""
    M = gen.message
    out = []
    g = M(b"GET", b"/", b"HTTP/1.1", [])
    p = M(b"POST", b"/", b"HTTP/1.1", [(b"Content-Length", b"3", "cl")], b"abc")
    ch = M(b"POST", b"/", b"HTTP/1.1", [(b"Transfer-Encoding", b"chunked", "te")], gen.chunked_body([3], b"", ()))
    cht = M(b"POST", b"/", b"HTTP/1.1", [(b"Transfer-Encoding", b"chunked", "te")], gen.chunked_body([1, 2], b";a=b", ((b"T", b"v"),)))
    ex = M(b"POST", b"/", b"HTTP/1.1", [(b"Expect", b"100-continue"), (b"Content-Length", b"3", "cl")], b"abc")
    g10 = M(b"GET", b"/", b"HTTP/1.0", [(b"Connection", b"keep-alive", "conn")])
    cl = M(b"GET", b"/", b"HTTP/1.1", [(b"Connection", b"close", "conn")])
    fold = M(b"GET", b"/", b"HTTP/1.1", [(b"X", b"a"), (None, b" b", "fold")])
    clte = M(b"POST", b"/", b"HTTP/1.1", [(b"Content-Length", b"3", "cl"), (b"Transfer-Encoding", b"chunked", "te")], gen.chunked_body([3]))
    big = M(b"GET", b"/" + b"a" * 50, b"HTTP/1.1", [(b"X", b"y" * 10)])
    bigb = M(b"POST", b"/", b"HTTP/1.1", [(b"Content-Length", b"14", "cl")], b"abcdefghijklmn")
    bigc = M(b"POST", b"/", b"HTTP/1.1", [(b"Transfer-Encoding", b"chunked", "te")], gen.chunked_body([9, 8]))
    # a chunked body whose raw size (11) stays just below the body limit of the "small" configuration (12): the
    # bytes of the next request arriving in the same read must not be counted against it
    ch1 = M(b"POST", b"/", b"HTTP/1.1", [(b"Transfer-Encoding", b"chunked", "te")], gen.chunked_body([1], b"", ()))
    singles = {"chunked-1": ch1, "get": g, "post": p, "chunked": ch, "chunked-ext-trailer": cht, "expect": ex, "get10": g10, "close": cl, "fold": fold, "cl+te": clte, "big-head": big, "big-body": bigb, "big-chunked": bigc}
    R = gen.render
    for name, t in singles.items():
        out.append((name, R(t)))
    pairs = [("get", "get"), ("post", "get"), ("chunked", "get"), ("chunked-ext-trailer", "post"), ("get", "expect"), ("expect", "get"), ("get10", "get"), ("close", "get"), ("cl+te", "get"), ("big-body", "get"), ("post", "chunked"), ("chunked-1", "get"), ("chunked-1", "chunked-1")]
    for a, b in pairs:
        out.append((a + "+" + b, R(singles[a]) + R(singles[b])))
    out.append(("crlf-get-crlf-get", b"\r\n" + R(g) + b"\r\n" + R(g)))
    out.append(("get-get-get", R(g) * 3))
    # heads whose size is at the header limit of the "small" configuration (64) with and without leading empty lines
    for L in (60, 61, 62, 63, 64):
        head = b"GET /" + b"a" * (L - len(b"GET / HTTP/1.1\r\n\r\n")) + b" HTTP/1.1\r\n\r\n"
        out.append((f"head{L}", head))
        out.append((f"crlf+head{L}", b"\r\n" + head))
        if L in (62, 63):
            out.append((f"crlf+head{L}+get", b"\r\n" + head + R(g)))
    out.append(("truncated-chunked", R(ch)[:-3]))
    out.append(("truncated-expect", R(ex)[:-2]))
    # malformed variants: a deterministic slice of the single-token mutations
    muts = []
    for name, toks in [("chunked", cht), ("post", p), ("cl+te", clte), ("fold", fold)]:
        for desc, bs in gen.mutations(toks):
            muts.append((name + ":" + desc, b"".join(bs) + R(g)))
    step = 23 if tier == "quick" else 3
    off = common.SEED % step
    out += muts[off::step]
    return out


def main(tier, only=None):
    run = Run("C02", tier)
    rnd = random.Random(common.SEED)
    run.cov["rule"] = (
        "per stream: BFS over the cut graph (node = offset + exact concrete state, edge = next read of l bytes, all l), which contains every one of the 2^(n-1) segmentations as a path; "
        "all terminal observations (application calls, responses, refusal, closure) must coincide; streams with n <= 15 are additionally run under all cut sets explicitly; "
        "distinct_nontrivial = graph nodes other than roots"
    )
    run.assume(
        "one fixed thread schedule (tasks run as soon as queued)",
        "an interim 100 Continue for a request whose bytes all arrive is optional (C19) and dropped before comparing",
        "states are merged only when the pickled concrete state is byte-identical",
    )
    items = corpus(tier)
    work = []
    for cfg in CONFIGS:
        for label, s in items:
            if only and only not in label:
                continue
            work.append(("graph", cfg, label, s))
    # explicit cross-check on short streams
    short = [b"GET / HTTP/1.1\r\n\r\n"[:15], b"0\r\n\r\nGET /\r\n\r\n", b"\r\n\r\nGET / \r\n\r\n"]
    chunk_tail = gen.render(gen.chunked_body([1], b"", ()))
    work.append(("explicit", "default", "short-get", b"GET / HTTP/1.1\r\n\r\n"[-15:] if False else b"GET /\r\nA:b\r\n\r\n"))
    work.append(("explicit", "small", "short-get-small", b"GET /\r\nA:b\r\n\r\n"))
    rnd.shuffle(work)
    ctx = mp.get_context("fork")
    nodes = edges = 0
    nstreams = 0
    with ctx.Pool(common.NPROC) as pool:
        for kind, cfg, label, stream, n_nodes, n_edges, terms, capped in pool.imap_unordered(_work, work):
            nstreams += 1
            nodes += n_nodes
            edges += n_edges
            if capped:
                run.cap(f"{label}[{cfg}]: node cap {NODE_CAP}")
            if len(terms) > 1:
                a, b = terms[0], terms[1]
                run.violation(
                    f"segmentation-dependent:{diff_kind(a[0], b[0])}",
                    f"[{cfg}] {label}: stream {stream[:120]!r} gives different observations for cuts {a[1]} and {b[1]}: {summ(a[0])} vs {summ(b[0])}",
                    {"cfg": cfg, "stream": stream.decode("latin-1"), "cuts_a": list(a[1]) if isinstance(a[1], tuple) else a[1], "cuts_b": list(b[1]) if isinstance(b[1], tuple) else b[1]},
                )
            if nstreams <= 3:
                run.sample({"cfg": cfg, "label": label, "stream": stream, "nodes": n_nodes, "edges": n_edges})
    run.add(states=nodes, transitions=edges, traces_validated_against_impl=edges, evaluations=edges, distinct_nontrivial=max(nodes - nstreams, 0))
    run.part("cut-graphs", streams=nstreams, nodes=nodes, edges=edges, configs=list(CONFIGS))
    return run.finish()


def summ(ob):
    calls, w, closed, esc = ob
    return {"calls": [(c[0], c[1], c[4]) for c in calls], "responses": [(x[0], x[2][:60]) if isinstance(x, tuple) else x for x in w] if w and w[0] != "raw" else w, "closed": closed, "escaped": esc}


def diff_kind(a, b):
    if a[0] != b[0]:
        return "calls"
    if a[3] != b[3]:
        return "exception"
    if a[2] != b[2]:
        return "closure"
    ra, rb = a[1], b[1]
    if ra and rb and ra[0] != "raw" and rb[0] != "raw" and len(ra) == len(rb) and ra[:-1] == rb[:-1]:
        sa, sb = ra[-1][0], rb[-1][0]
        if {sa, sb} <= {400, 413, 431, 501} and sa != sb:
            # both segmentations refuse the same message, with different codes
            return "refusal-status-%d-vs-%d" % (min(sa, sb), max(sa, sb))
        if ra[-1][0] == rb[-1][0] and ra[-1][0] in (400, 413, 431, 501) and ra[-1][1] != rb[-1][1]:
            return "refusal-headers"
        if ra[-1][0] == rb[-1][0] and ra[-1][0] in (400, 413, 431, 501):
            return "refusal-text"
    return "responses"


def replay(rep):
    stream = rep["stream"].encode("latin-1")
    cfg = rep["cfg"]
    env = get_env(cfg)
    res = []
    for cuts in (rep["cuts_a"], rep["cuts_b"]):
        env.activate()
        del env.calls[:]
        del env.escaped[:]
        c = env.connect()
        off = 0
        if isinstance(cuts, int):
            n = len(stream)
            lens = []
            start = 0
            for i in range(1, n):
                if cuts >> (i - 1) & 1:
                    lens.append(i - start)
                    start = i
            lens.append(n - start)
            cuts = lens
        for l in cuts:
            c.send(stream[off : off + l])
            off += l
        ob = observation(env, c, True)
        print("cuts", cuts, "->", summ(ob))
        res.append(ob)
    return 1 if res[0] != res[1] else 0
