"""C16  Trusted proxy headers: only trusted kinds, only trusted hops, never a crash.

E5: for a trusted peer, hop lists of length 0..5 for Forwarded and the
X-Forwarded-* headers built from a menu of well-formed, degenerate and
malformed elements x trusted_proxy_count 1..4 x every allowed subset of
trusted_proxy_headers x presence of untrusted kinds, executed on the real
parser -> task -> middleware -> application path and compared with a reference
hop-selection model.
"""
import itertools
import multiprocessing as mp
import random

from .. import common, seq
from ..evidence import Run

PEER = ("10.9.9.9", 5555)
XF = ["x-forwarded-for", "x-forwarded-host", "x-forwarded-proto", "x-forwarded-port", "x-forwarded-by"]


def subsets():
    out = [("forwarded",)]
    for n in range(1, len(XF) + 1):
        out += list(itertools.combinations(XF, n))
    return out


# ---------------------------------------------------------------------------
# element menus: (text, kind) where kind says what the reference expects
# ---------------------------------------------------------------------------
def for_menu(n):
    """values for the n-th hop (n is a 1-digit marker)"""
    return [
        (f"1.1.1.{n}", ("addr", f"1.1.1.{n}", None)),
        (f"1.1.1.{n}:80{n}", ("addr", f"1.1.1.{n}", f"80{n}")),
        (f"[2001:db8::{n}]", ("addr", f"2001:db8::{n}", None)),
        (f"[2001:db8::{n}]:80{n}", ("addr", f"2001:db8::{n}", f"80{n}")),
        (f'"[2001:db8::{n}]:80{n}"', ("addr", f"2001:db8::{n}", f"80{n}")),
        (f'"1.1.1.{n}"', ("addr", f"1.1.1.{n}", None)),
        (f"2001:db8::{n}", ("bare6", f"2001:db8::{n}", None)),
        ("", ("empty",)),
        (":80", ("degenerate",)),
        ("[", ("degenerate",)),
        ("]", ("degenerate",)),
        ("[]", ("degenerate",)),
        (":", ("degenerate",)),
        ("[:", ("degenerate",)),
        (".:", ("degenerate",)),
        ('"', ("badquote",)),
        ('"x', ("badquote",)),
        ('x"', ("badquote",)),
        (f'"1.1.1.{n}"x"', ("badquote",)),
        ('""x"', ("badquote",)),
        (f'"1.1.1.{n}" "x"', ("badquote",)),
        ('"a\\"b.{0}"'.format(n), ("addr", f'a"b.{n}', None)),
        (f" 1.1.1.{n} ", ("padded", f"1.1.1.{n}", None)),
        (f"unknown{n}", ("addr", f"unknown{n}", None)),
        (f"_hidden{n}", ("addr", f"_hidden{n}", None)),
    ]


def host_menu(n):
    return [
        (f"h{n}.example", ("host", f"h{n}.example", None)),
        (f"h{n}.example:8{n}", ("host", f"h{n}.example", f"8{n}")),
        (f"[2001:db8::{n}]", ("host", f"[2001:db8::{n}]", None)),
        (f"[2001:db8::{n}]:8{n}", ("host", f"[2001:db8::{n}]", f"8{n}")),
        (f'"h{n}.example:8{n}"', ("host", f"h{n}.example", f"8{n}")),
        ("", ("empty",)),
        (":80", ("emptyhost",)),
        (":", ("emptyhost",)),
        ('" :80"', ("emptyhost",)),
        ('"\t:8080"', ("emptyhost",)),
        ('"', ("badquote",)),
        ('"h', ("badquote",)),
        (f'"h{n}.example"x"', ("badquote",)),
        (f" h{n}.example ", ("padded", f"h{n}.example", None)),
    ]


PROTO_MENU = [
    ("http", ("proto", "http")), ("https", ("proto", "https")), ("HTTPS", ("proto", "https")), ('"https"', ("proto", "https")),
    ("ftp", ("badproto",)), ("", ("empty",)), ('"', ("badquote",)), ("h", ("badproto",)), ("http, https", ("multi",)), ("https,https", ("multi",)), ('"https"s"', ("badquote",)),
]
PORT_MENU = [("8443", ("port", "8443")), ('"8443"', ("port", "8443")), ("", ("empty",)), ("1, 2", ("multi",)), ('"', ("badquote",)), ("x", ("port", "x")), ('"80"80"', ("badquote",))]

_envs = {}


def get_env(kw):
    key = repr(sorted(kw.items()))
    e = _envs.get(key)
    if e is None:
        e = seq.Env(None, **kw)
        _envs[key] = e
    return e


def request(headers):
    lines = ["GET /x HTTP/1.1", "Host: real.example:8080"]
    for k, v in headers:
        lines.append(f"{k}: {v}")
    return ("\r\n".join(lines) + "\r\n\r\n").encode("latin-1")


def run(env, headers):
    env.activate()
    got = []

    def app(environ, start_response):
        got.append({k: v for k, v in environ.items() if isinstance(v, str)})
        start_response("200 OK", [("Content-Length", "0")])
        return []

    env.app = app
    del env.escaped[:]
    del env.disp.worker_exc[:]
    c = env.connect(peer=PEER)
    c.send(request(headers))
    wire = c.wire
    esc = list(env.escaped) + [repr(e) for e in env.disp.worker_exc]
    log = [m for lvl, m in env.W.log if lvl == "ERROR"]
    if not c.closed and c.ch is not None:
        c.ch.handle_close()
    status = int(wire[9:12]) if len(wire) >= 12 and wire[9:12].isdigit() else None
    return got, status, esc, log


# ---------------------------------------------------------------------------
# the cases
# ---------------------------------------------------------------------------
def hop_lists(menu_fn, tier):
    """lists of (text, kind): all-plain lists of length 1..5, and lists with one
    odd element at each position."""
    out = []
    for L in range(1, 6):
        plain = [menu_fn(i + 1)[0] for i in range(L)]
        out.append(plain)
        for pos in range(L):
            for odd in menu_fn(pos + 1)[1:]:
                if tier == "quick" and L in (3, 4) and pos not in (0, L - 1):
                    continue
                lst = list(plain)
                lst[pos] = odd
                out.append(lst)
        if tier == "thorough" and 2 <= L <= 4:
            # two odd elements
            for p1 in range(L):
                for p2 in range(p1 + 1, L):
                    for o1 in menu_fn(p1 + 1)[1:]:
                        for o2 in menu_fn(p2 + 1)[1:]:
                            lst = list(plain)
                            lst[p1], lst[p2] = o1, o2
                            out.append(lst)
    return out


def expect_from_hops(hops, count, kind):
    """Reference hop selection for a comma-list header (X-Forwarded-For/Host).
    Returns ('400',) / ('unspecified',) / ('sel', selected kind tuple, hidden markers)"""
    kinds = [k for _, k in hops]
    if any(k[0] == "badquote" for k in kinds):
        return ("400",)
    sel_i = max(len(hops) - count, 0)
    sel = kinds[sel_i]
    hidden = [i + 1 for i in range(sel_i)]
    return ("sel", sel, hidden)


def cases(tier):
    subs = subsets()
    counts = (1, 2, 3, 4)
    # -- X-Forwarded-For -----------------------------------------------------
    for lst in hop_lists(for_menu, tier):
        for count in counts:
            for sep in (", ", ","):
                if sep == "," and tier == "quick" and count != 2:
                    continue
                yield dict(kind="xff", tph=("x-forwarded-for",), count=count, headers=[("X-Forwarded-For", sep.join(t for t, _ in lst))], hops=lst)
    # -- X-Forwarded-Host ----------------------------------------------------
    for lst in hop_lists(host_menu, tier):
        for count in counts:
            yield dict(kind="xfh", tph=("x-forwarded-host",), count=count, headers=[("X-Forwarded-Host", ", ".join(t for t, _ in lst))], hops=lst)
    # -- proto / port --------------------------------------------------------
    for (pt, pk), (ot, ok) in itertools.product(PROTO_MENU, PORT_MENU):
        yield dict(kind="xfpp", tph=("x-forwarded-proto", "x-forwarded-port"), count=1, headers=[("X-Forwarded-Proto", pt), ("X-Forwarded-Port", ot)], proto=pk, port=ok)
    # -- Forwarded -----------------------------------------------------------
    for L in range(1, 6):
        for count in counts:
            # plain
            def elem(i, for_=True, host=True, proto=True, by=False):
                parts = []
                if for_:
                    parts.append(f"for=1.1.1.{i}")
                if host:
                    parts.append(f"host=h{i}.example")
                if proto:
                    parts.append("proto=" + ("https" if i % 2 else "http"))
                if by:
                    parts.append(f"by=2.2.2.{i}")
                return ";".join(parts)

            plain = [elem(i + 1) for i in range(L)]
            yield dict(kind="fwd-plain", tph=("forwarded",), count=count, headers=[("Forwarded", ", ".join(plain))], L=L)
            # empty forwarded-pairs are grammatical (RFC 7239 section 4): the element means the same
            for lead, sep, trail in ((";", ";", ""), ("", ";;", ""), ("", ";", ";"), (";;", ";;;", ";;")):
                lst = [lead + e.replace(";", sep) + trail for e in plain]
                yield dict(kind="fwd-plain", tph=("forwarded",), count=count, headers=[("Forwarded", ", ".join(lst))], L=L)
            # optional whitespace around the list separator
            yield dict(kind="fwd-plain", tph=("forwarded",), count=count, headers=[("Forwarded", " ,\t".join(plain))], L=L)
            yield dict(kind="fwd-plain", tph=("forwarded",), count=count, headers=[("Forwarded", ",".join(plain))], L=L)
            # missing attributes in the selected hop: fall back to the nearest more-trusted hop
            for miss in ("for", "host", "proto"):
                lst = list(plain)
                si = max(L - count, 0)
                lst[si] = elem(si + 1, for_=miss != "for", host=miss != "host", proto=miss != "proto")
                yield dict(kind="fwd-missing", tph=("forwarded",), count=count, headers=[("Forwarded", ", ".join(lst))], L=L, miss=miss)
            # one odd element at each position
            odd_elems = [
                ("for=:80", "degenerate"), ("for=[", "degenerate"), ('for="', "400"), ('for="1.1.1.9"x"', "400"), ('host="h9.example" "x"', "400"), ("for", "400"), ("=x", "unspecified"), ("for =1.1.1.1", "400"), ("for= 1.1.1.1", "400"),
                ("for=1.1.1.1 ;host=h", "400"), ("proto=ftp", "badproto"), ("host=", "unspecified"), ("host=:80", "emptyhost"), ('host=" :80"', "emptyhost"), ('host="\t:8080"', "emptyhost"), ("for=\"[2001:db8::9]:809\"", "ok6"), ("FOR=1.1.1.9;Host=H9.example;PROTO=HTTPS", "okcase"),
                (";;for=1.1.1.9;;", "ok"), ("", "unspecified"), ("secret=1", "unspecified"), ('host="a\\"b"', "unspecified"), ("for=_hidden", "ok"), ("for=unknown", "ok"), ("for=.:", "degenerate"), ("for=[]", "degenerate"), ("for=[]:1", "degenerate"),
            ]
            for pos in range(L):
                if tier == "quick" and L >= 3 and pos not in (0, L - 1):
                    continue
                for text, kind in odd_elems:
                    lst = list(plain)
                    lst[pos] = text
                    yield dict(kind="fwd-odd", tph=("forwarded",), count=count, headers=[("Forwarded", ", ".join(lst))], L=L, pos=pos, odd=kind, oddtext=text)
    # -- host / port / scheme composition -------------------------------------
    for host in ("h1.example", "[2001:db8::1]"):
        for port in (None, "80", "443", "8443"):
            for proto in (None, "http", "https"):
                for trust_proto in (True, False):
                    hdrs = [("X-Forwarded-Host", host)]
                    tph = ["x-forwarded-host"]
                    if port is not None:
                        hdrs.append(("X-Forwarded-Port", port))
                        tph.append("x-forwarded-port")
                    if proto is not None:
                        hdrs.append(("X-Forwarded-Proto", proto))
                    if trust_proto:
                        tph.append("x-forwarded-proto")
                    yield dict(kind="hostport", tph=tuple(tph), count=1, headers=hdrs, host=host, port=port, proto=proto if trust_proto else None)
    # -- untrusted kinds present next to trusted ones --------------------------
    allh = {
        "forwarded": ("Forwarded", "for=6.6.6.6;host=evil.example;proto=https"),
        "x-forwarded-for": ("X-Forwarded-For", "6.6.6.6"),
        "x-forwarded-host": ("X-Forwarded-Host", "evil.example:666"),
        "x-forwarded-proto": ("X-Forwarded-Proto", "https"),
        "x-forwarded-port": ("X-Forwarded-Port", "666"),
        "x-forwarded-by": ("X-Forwarded-By", "6.6.6.7"),
    }
    for tph in subs:
        for count in (1, 2):
            yield dict(kind="kinds", tph=tph, count=count, headers=[allh[k] for k in allh], allh=True)
            for k in allh:
                if k not in tph:
                    yield dict(kind="kinds", tph=tph, count=count, headers=[allh[k]], single=k)


def judge(case, got, status, esc, log, base):
    v = []
    kind = case["kind"]
    tag = f"tph={case['tph']} count={case['count']} headers={case['headers']}"
    # totality: never an exception, never a 500
    for e in esc:
        v.append(("exception", f"{tag}: {e}"))
    if status == 500 or status is None:
        why = log[-1].strip().splitlines()[-1] if log else ""
        v.append((f"status-500:{_site(log)}", f"{tag}: answered with {status} ({why})"))
        return v
    if status not in (200, 400):
        v.append(("status-other", f"{tag}: status {status}"))
        return v
    g = got[0] if got else None
    count = case["count"]

    def need400(why):
        if status != 400:
            v.append((f"accepted-malformed:{why}", f"{tag}: {why} accepted (REMOTE_ADDR={g.get('REMOTE_ADDR')!r} SERVER_NAME={g.get('SERVER_NAME')!r} scheme={g.get('wsgi.url_scheme')!r})"))

    def need200():
        if status != 200:
            v.append(("refused-wellformed", f"{tag}: well-formed header refused with 400"))
            return False
        return True

    if kind in ("xff", "xfh"):
        exp = expect_from_hops(case["hops"], count, kind)
        if exp[0] == "400":
            need400("bad quoting")
            return v
        sel, hidden = exp[1], exp[2]
        if sel[0] == "emptyhost":
            need400("empty host")
            return v
        if status == 400:
            if sel[0] in ("addr", "host", "padded", "bare6") and all(k[0] in ("addr", "host", "padded", "bare6", "empty", "degenerate", "emptyhost") for _, k in case["hops"]):
                v.append(("refused-wellformed", f"{tag}: refused with 400"))
            return v
        # hops further left never reach the application
        key = "HTTP_X_FORWARDED_FOR" if kind == "xff" else "HTTP_X_FORWARDED_HOST"
        raw_texts = [t for t, _ in case["hops"]]
        left = raw_texts[: max(len(raw_texts) - count, 0)]
        for k, val in g.items():
            for n in hidden:
                for marker in (f"1.1.1.{n}", f"2001:db8::{n}", f"h{n}.example", f"unknown{n}", f"_hidden{n}"):
                    if marker in val and k != "QUERY_STRING":
                        # marker n may legitimately equal a trusted hop's text only if same index: indices are unique
                        v.append(("left-hop-leaked", f"{tag}: environ[{k!r}]={val!r} contains hop {n}, which is left of the trusted suffix"))
        if sel[0] in ("addr", "padded", "bare6") and kind == "xff":
            if g.get("REMOTE_ADDR") != sel[1] or g.get("REMOTE_HOST") != sel[1]:
                v.append(("wrong-hop:REMOTE_ADDR", f"{tag}: REMOTE_ADDR={g.get('REMOTE_ADDR')!r}, the trusted hop is {sel[1]!r}"))
            if sel[2] is not None and g.get("REMOTE_PORT") != sel[2]:
                v.append(("wrong-hop:REMOTE_PORT", f"{tag}: REMOTE_PORT={g.get('REMOTE_PORT')!r}, the trusted hop says {sel[2]!r}"))
        if sel[0] in ("host", "padded") and kind == "xfh":
            if g.get("SERVER_NAME") != sel[1]:
                v.append(("wrong-hop:SERVER_NAME", f"{tag}: SERVER_NAME={g.get('SERVER_NAME')!r}, the trusted hop is {sel[1]!r}"))
            if sel[2] is not None and g.get("SERVER_PORT") != sel[2]:
                v.append(("wrong-hop:SERVER_PORT", f"{tag}: SERVER_PORT={g.get('SERVER_PORT')!r}, the trusted hop says {sel[2]!r}"))
            if not g.get("HTTP_HOST", "").startswith(sel[1]):
                v.append(("wrong-hop:HTTP_HOST", f"{tag}: HTTP_HOST={g.get('HTTP_HOST')!r}"))
        if sel[0] == "empty":
            # nothing usable in the trusted hop: metadata must stay the peer's / the request's
            if kind == "xff" and g.get("REMOTE_ADDR") != base["REMOTE_ADDR"]:
                v.append(("empty-hop-changed:REMOTE_ADDR", f"{tag}: REMOTE_ADDR={g.get('REMOTE_ADDR')!r}"))
            if kind == "xfh" and g.get("SERVER_NAME") != base["SERVER_NAME"]:
                v.append(("empty-hop-changed:SERVER_NAME", f"{tag}: SERVER_NAME={g.get('SERVER_NAME')!r}"))
        # only the trusted kind changed anything
        allowed = {"REMOTE_ADDR", "REMOTE_HOST", "REMOTE_PORT", key} if kind == "xff" else {"SERVER_NAME", "SERVER_PORT", "HTTP_HOST", key}
        for k in set(g) | set(base):
            if k not in allowed and g.get(k) != base.get(k):
                v.append((f"side-effect:{k}", f"{tag}: environ[{k!r}] changed from {base.get(k)!r} to {g.get(k)!r}"))
        return v
    if kind == "xfpp":
        pk, ok = case["proto"], case["port"]
        if pk[0] in ("badquote", "multi", "badproto") or ok[0] in ("badquote", "multi"):
            need400({"badquote": "bad quoting", "multi": "several values where one is required", "badproto": "unsupported scheme"}[pk[0] if pk[0] in ("badquote", "multi", "badproto") else ok[0]])
            return v
        if not need200():
            return v
        if pk[0] == "proto" and g.get("wsgi.url_scheme") != pk[1]:
            v.append(("wrong:url_scheme", f"{tag}: wsgi.url_scheme={g.get('wsgi.url_scheme')!r}"))
        if pk[0] == "empty" and g.get("wsgi.url_scheme") != base["wsgi.url_scheme"]:
            v.append(("wrong:url_scheme", f"{tag}: wsgi.url_scheme={g.get('wsgi.url_scheme')!r} although no proto was given"))
        if ok[0] == "port" and g.get("SERVER_PORT") != ok[1]:
            v.append(("wrong:SERVER_PORT", f"{tag}: SERVER_PORT={g.get('SERVER_PORT')!r}"))
        return v
    if kind == "hostport":
        if not need200():
            return v
        scheme = case["proto"] or base["wsgi.url_scheme"]
        port = case["port"] or ({"http": "80", "https": "443"}[scheme] if case["proto"] else None)
        default = {"http": "80", "https": "443"}[scheme]
        want_host = case["host"] if (port is None or port == default) else f"{case['host']}:{port}"
        if g.get("SERVER_NAME") != case["host"]:
            v.append(("wrong:SERVER_NAME", f"{tag}: SERVER_NAME={g.get('SERVER_NAME')!r}"))
        if g.get("HTTP_HOST") != want_host:
            v.append(("wrong:HTTP_HOST", f"{tag}: HTTP_HOST={g.get('HTTP_HOST')!r}, expected {want_host!r} (scheme {scheme}, port {port})"))
        if g.get("wsgi.url_scheme") != scheme:
            v.append(("wrong:url_scheme", f"{tag}: wsgi.url_scheme={g.get('wsgi.url_scheme')!r}"))
        if port is not None and g.get("SERVER_PORT") != port:
            v.append(("wrong:SERVER_PORT", f"{tag}: SERVER_PORT={g.get('SERVER_PORT')!r}, expected {port!r}"))
        return v
    if kind in ("fwd-plain", "fwd-missing"):
        if not need200():
            return v
        L = case["L"]
        si = max(L - count, 0) + 1  # 1-based index of the selected hop
        want = {"for": f"1.1.1.{si}", "host": f"h{si}.example", "proto": "https" if si % 2 else "http"}
        if kind == "fwd-missing":
            # nearest more-trusted hop (to the right) that has the attribute
            nxt = si + 1 if si + 1 <= L else None
            m = case["miss"]
            if nxt is None:
                want[m] = None
            else:
                want[m] = {"for": f"1.1.1.{nxt}", "host": f"h{nxt}.example", "proto": "https" if nxt % 2 else "http"}[m]
        chk = [("for", "REMOTE_ADDR"), ("host", "SERVER_NAME"), ("proto", "wsgi.url_scheme")]
        for a, k in chk:
            w = want[a] if want[a] is not None else base[k]
            if g.get(k) != w:
                v.append((f"wrong-hop:{k}", f"{tag}: {k}={g.get(k)!r}, expected {w!r} (hop {si} of {L})"))
        for n in range(1, si):
            for k, val in g.items():
                if f"1.1.1.{n}" in val or f"h{n}.example" in val:
                    v.append(("left-hop-leaked", f"{tag}: environ[{k!r}]={val!r} contains hop {n} left of the trusted suffix"))
        return v
    if kind == "fwd-odd":
        odd, pos, L = case["odd"], case["pos"], case["L"]
        # whatever the server makes of an odd element, the hop it takes the client address from must be one of
        # the hops it hands to the application as trusted (the rewritten Forwarded value): otherwise a hop
        # "further left" has reached the application through REMOTE_ADDR
        if status == 200 and g and "HTTP_FORWARDED" in g and g.get("REMOTE_ADDR") != base.get("REMOTE_ADDR"):
            if g["REMOTE_ADDR"] not in g["HTTP_FORWARDED"]:
                v.append(("address-from-outside-trusted-suffix", f"{tag}: REMOTE_ADDR={g['REMOTE_ADDR']!r} but the application is given Forwarded={g['HTTP_FORWARDED']!r}"))
        if odd == "400":
            need400("malformed Forwarded element")
        elif odd == "badproto":
            # an unsupported scheme matters if it is the one that would be used
            si = max(L - count, 0)
            if pos == si:
                need400("unsupported scheme")
        elif odd == "emptyhost":
            si = max(L - count, 0)
            if pos == si:
                need400("empty host")
        elif odd in ("ok", "ok6", "okcase"):
            need200()
        return v
    if kind == "kinds":
        if not need200():
            return v
        tph = set(case["tph"])
        # untrusted kinds are stripped
        for name, (hname, val) in {
            "forwarded": ("HTTP_FORWARDED", None), "x-forwarded-for": ("HTTP_X_FORWARDED_FOR", None), "x-forwarded-host": ("HTTP_X_FORWARDED_HOST", None),
            "x-forwarded-proto": ("HTTP_X_FORWARDED_PROTO", None), "x-forwarded-port": ("HTTP_X_FORWARDED_PORT", None), "x-forwarded-by": ("HTTP_X_FORWARDED_BY", None),
        }.items():
            if name not in tph and hname in g:
                v.append((f"untrusted-kind-not-stripped:{name}", f"{tag}: {hname}={g[hname]!r} reached the application"))
        # and do not affect the environ
        affects = {
            "forwarded": {"REMOTE_ADDR", "REMOTE_HOST", "REMOTE_PORT", "SERVER_NAME", "SERVER_PORT", "HTTP_HOST", "wsgi.url_scheme"},
            "x-forwarded-for": {"REMOTE_ADDR", "REMOTE_HOST", "REMOTE_PORT"},
            "x-forwarded-host": {"SERVER_NAME", "SERVER_PORT", "HTTP_HOST"},
            "x-forwarded-proto": {"wsgi.url_scheme", "SERVER_PORT", "HTTP_HOST"},
            "x-forwarded-port": {"SERVER_PORT", "HTTP_HOST"},
            "x-forwarded-by": set(),
        }
        may = set()
        for k in tph:
            may |= affects[k]
        for k in ("REMOTE_ADDR", "REMOTE_HOST", "REMOTE_PORT", "SERVER_NAME", "SERVER_PORT", "HTTP_HOST", "wsgi.url_scheme"):
            if k not in may and g.get(k) != base.get(k):
                v.append((f"untrusted-kind-influence:{k}", f"{tag}: environ[{k!r}]={g.get(k)!r} (baseline {base.get(k)!r}) although no trusted kind governs it"))
        return v
    return v


def _site(log):
    if not log:
        return "?"
    for ln in reversed(log[-1].splitlines()):
        ln = ln.strip()
        if ln.startswith("File ") and "proxy_headers" in ln:
            return ln.split(", in ")[-1]
    return log[-1].strip().splitlines()[-1].split(":")[0]


def _batch(items):
    out = []
    classes = set()
    for case in items:
        kw = dict(trusted_proxy=PEER[0], trusted_proxy_count=case["count"], trusted_proxy_headers=list(case["tph"]))
        if "clear" in case:
            kw["clear_untrusted_proxy_headers"] = case["clear"]
        env = get_env(kw)
        base = getattr(env, "_c16_base", None)
        if base is None:
            b, st, _, _ = run(env, [])
            base = env._c16_base = b[0]
        got, status, esc, log = run(env, case["headers"])
        v = judge(case, got, status, esc, log, base)
        classes.add((case["kind"], case["tph"], case["count"], status, case.get("odd"), case.get("L"), case.get("clear")))
        for key, what in v:
            out.append((key, what, case))
    return len(items), classes, out


def main(tier, only=None):
    r = Run("C16", tier)
    rnd = random.Random(common.SEED)
    r.cov["rule"] = (
        "trusted peer; X-Forwarded-For / -Host hop lists of length 1..5 (all-plain, and one odd element from a menu of 22 / 11 at each position) x count 1..4; X-Forwarded-Proto x -Port menus; "
        "Forwarded lists of length 1..5 (plain, attribute missing in the selected hop, 22 odd elements at each position) x count 1..4; every allowed subset of trusted_proxy_headers x untrusted kinds present; "
        "oracle: reference hop selection, left hops never leak, untrusted kinds stripped and without influence, listed malformed classes -> 400, never an exception or 500; "
        "distinct_nontrivial = distinct (kind, trusted set, count, status, odd class, length)"
    )
    r.assume("clear_untrusted_proxy_headers on (default) for the stripping clauses; the hop-selection cases are run with it off as well", "for degenerate elements (':80', '[', ...) only totality is demanded unless the property lists the class as 400")
    items = list(cases(tier))
    # the same selection rules with clear_untrusted_proxy_headers off (trusted kinds must still be interpreted)
    items += [dict(c, clear=False) for c in items if c["kind"] in ("fwd-plain", "fwd-missing", "hostport", "xfpp") or (c["kind"] in ("xff", "xfh") and c["count"] == 2)]
    if only:
        items = [c for c in items if only in c["kind"]]
    rnd.shuffle(items)
    batches = [items[i : i + 200] for i in range(0, len(items), 200)]
    ctx = mp.get_context("fork")
    n = 0
    classes = set()
    viol = []
    with ctx.Pool(common.NPROC) as pool:
        for k, cl, out in pool.imap_unordered(_batch, batches):
            n += k
            classes |= cl
            viol += out
    r.add(states=len(classes), transitions=n, traces_validated_against_impl=n, evaluations=n, distinct_nontrivial=len(classes))
    r.part("cases", total=n)
    for c in items[:3]:
        r.sample({k: v for k, v in c.items() if k in ("kind", "tph", "count", "headers")})
    seen = {}
    for key, what, case in viol:
        seen.setdefault(key, []).append((what, case))
    for k, lst in sorted(seen.items()):
        lst.sort(key=lambda x: len(repr(x[1]["headers"])))
        what, case = lst[0]
        r.violation(k, f"{what} [{len(lst)} cases]", {k2: v for k2, v in case.items() if k2 in ("kind", "tph", "count", "headers")})
    return r.finish()


def replay(rep):
    kw = dict(trusted_proxy=PEER[0], trusted_proxy_count=rep["count"], trusted_proxy_headers=list(rep["tph"]))
    if "clear" in rep:
        kw["clear_untrusted_proxy_headers"] = rep["clear"]
    env = get_env(kw)
    got, status, esc, log = run(env, [tuple(h) for h in rep["headers"]])
    print("status:", status, "environ:", got, esc)
    for l in log[-1:]:
        print(l)
    return 1 if status == 500 or esc else 0
