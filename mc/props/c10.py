"""C10  Framing-critical tokens are accepted exactly per grammar, at any length.

For each lexical gate:
 1. a DFA M is derived from the *compiled pattern's own source* plus a model
    of the call-site wrapper;
 2. M is bound to the code: it must agree with the real gate (the real
    parse_header / ChunkedReceiver.received / crack_first_line call sites) on
    all strings up to length n over one representative per byte class and on
    every byte 0..255 at every position of seed strings;
 3. M x S (S = DFA of the RFC grammar, written independently) is searched
    exhaustively; a reachable product state accepting on one side only gives
    a shortest distinguishing string, confirmed on the real gate;
 4. long digit strings must convert without raising, to the right value.
"""
import itertools

from .. import autom
from ..autom import ALL, Builder
from ..evidence import Run

DIGIT = frozenset(b"0123456789")
HEX = frozenset(b"0123456789abcdefABCDEF")
TCHAR = frozenset(b"!#$%&'*+-.^_`|~0123456789abcdefghijklmnopqrstuvwxyzABCDEFGHIJKLMNOPQRSTUVWXYZ")
LOWER = frozenset(b"abcdefghijklmnopqrstuvwxyz")
VCHAR = frozenset(range(0x21, 0x7F))
OBS = frozenset(range(0x80, 0x100))
WSP = frozenset(b" \t")
PYWS = frozenset(b" \t\n\r\x0b\x0c")  # what bytes.rstrip() removes
QDTEXT = frozenset([0x09, 0x20, 0x21]) | frozenset(range(0x23, 0x5C)) | frozenset(range(0x5D, 0x7F)) | OBS
QPAIR = frozenset([0x09, 0x20]) | VCHAR | OBS
EXTRA_SETS = [DIGIT, HEX, TCHAR, LOWER, VCHAR, OBS, WSP, PYWS, QDTEXT, QPAIR, {0x0D}, {0x0A}, {0x3B}, {0x3D}, {0x22}, {0x5C}, {0x3A}, {0x20}, {0x2F}, {0x2E},
              {0x48}, {0x54}, {0x50}, {0x00}, {0x7F}, {0x5F}]


# ---------------------------------------------------------------------------
# independent grammars (RFC 9110 / 9112), as NFA combinators
# ---------------------------------------------------------------------------
def spec_content_length(B):
    return B.plus(lambda: B.lit(DIGIT))


def spec_chunk_size(B):
    return B.plus(lambda: B.lit(HEX))


def spec_token(B):
    return B.plus(lambda: B.lit(TCHAR))


def spec_quoted_string(B):
    inner = lambda: B.alt(B.lit(QDTEXT), B.seq(B.lit({0x5C}), B.lit(QPAIR)))
    return B.seq(B.lit({0x22}), B.star(inner), B.lit({0x22}))


def spec_chunk_ext(B):
    one = lambda: B.seq(B.lit({0x3B}), spec_token(B), B.opt(lambda: B.seq(B.lit({0x3D}), B.alt(spec_token(B), spec_quoted_string(B)))))
    return B.star(one)


def spec_control_line(B):
    return B.seq(spec_chunk_size(B), spec_chunk_ext(B))


def spec_header_line(B):
    # token ":" OWS field-value OWS  ==  token ":" *( SP / HTAB / field-vchar )
    return B.seq(spec_token(B), B.lit({0x3A}), B.star(lambda: B.lit(WSP | VCHAR | OBS)))


def spec_request_line(B):
    # request-target: visible characters; obs-text is tolerated either way (DESIGN appendix A, T7)
    target = lambda: B.plus(lambda: B.lit(VCHAR | OBS))
    version = lambda: B.seq(B.lit({0x20}), B.lit({0x48}), B.lit({0x54}), B.lit({0x54}), B.lit({0x50}), B.lit({0x2F}), B.lit(DIGIT), B.lit({0x2E}), B.lit(DIGIT))
    return B.seq(spec_token(B), B.lit({0x20}), target(), B.opt(version))


# ---------------------------------------------------------------------------
def build_gates():
    """Returns list of gate descriptors."""
    import waitress.parser as P
    import waitress.receiver as R
    import waitress.rfc7230 as G
    from waitress.adjustments import Adjustments

    adj = Adjustments()
    gates = []

    # --- real call sites ----------------------------------------------------
    def real_cl(v):
        # the gate as applied at parser.py: the (already OWS-stripped) value
        return G.ONLY_DIGIT_RE.match(v) is not None

    def real_cl_site(v):
        p = P.HTTPRequestParser(adj)
        try:
            p.parse_header(b"POST / HTTP/1.1\r\nContent-Length:" + v + b"\r\n")
        except P.ParsingError:
            return False
        return True

    def real_ctrl(line):
        from waitress.buffers import OverflowableBuffer

        if b"\r\n" in line:
            return None
        r = R.ChunkedReceiver(OverflowableBuffer(10000))
        r.received(line + b"\r\n")
        return r.error is None

    def real_ext(ext):
        return G.CHUNK_EXT_RE.match(ext) is not None

    def real_header(line):
        if b"\r\n" in line or line == b"":
            return None  # not a single header line (empty lines are skipped by the splitter)
        p = P.HTTPRequestParser(adj)
        try:
            p.parse_header(b"GET / HTTP/1.1\r\n" + line + b"\r\n")
        except P.ParsingError:
            return False
        except P.TransferEncodingNotImplemented:
            return True
        return True

    def real_reqline(line):
        if b"\r\n" in line:
            return None
        p = P.HTTPRequestParser(adj)
        try:
            p.parse_header(line + b"\r\n")
        except P.ParsingError as e:
            # only the lexical gate is judged here (what happens to an
            # accepted line later, e.g. in urlsplit, is C06's business)
            return False if e.args[0] != "Bad URI" else True
        except Exception:
            return True
        return True

    gates.append(dict(name="content-length", pattern=G.ONLY_DIGIT_RE, mode="match", wrapper="none", real=real_cl, spec=spec_content_length,
                      seeds=[b"5", b"05", b"1234567890"], n=4))
    gates.append(dict(name="chunk-control-line", pattern=(G.ONLY_HEXDIG_RE, G.CHUNK_EXT_RE), mode="match", wrapper="ctrl", real=real_ctrl, spec=spec_control_line,
                      seeds=[b"5", b"a0;x=y", b'0;a="q\\"x";b'], n=5))
    gates.append(dict(name="chunk-ext", pattern=G.CHUNK_EXT_RE, mode="match", wrapper="none", real=real_ext, spec=spec_chunk_ext,
                      seeds=[b";a", b";a=b", b';a="x y"'], n=5))
    gates.append(dict(name="header-line", pattern=G.HEADER_FIELD_RE, mode="match", wrapper="header", real=real_header, spec=spec_header_line,
                      seeds=[b"X-A: v w", b"A:", b"A:\tb "], n=4))
    gates.append(dict(name="request-line", pattern=P.first_line_re, mode="fullmatch", wrapper="reqline", real=real_reqline, spec=spec_request_line,
                      seeds=[b"GET / HTTP/1.1", b"OPTIONS * HTTP/1.0", b"GET http://h:80/p?q#f", b"GET /"], n=4))
    def real_trailer(line):
        from waitress.buffers import OverflowableBuffer

        if b"\r\n" in line or line == b"":
            return None
        r = R.ChunkedReceiver(OverflowableBuffer(10000))
        r.received(b"0\r\n" + line + b"\r\n\r\n")
        if not r.completed:
            return None
        return r.error is None

    gates.append(dict(name="trailer-line", pattern=G.HEADER_FIELD_RE, mode="match", wrapper="none", real=real_trailer, spec=spec_header_line,
                      seeds=[b"T: v", b"A:", b"X-Sum: 1 2"], n=4))
    gates.append(dict(name="content-length@call-site", site_only=True, real=real_cl_site, seeds=[b" 5", b"5 ", b"\t05\t"]))
    return gates


def model_dfa(g, cls, reps, sets_acc):
    """DFA of what the code accepts, derived from the compiled pattern(s) and
    a model of the call-site wrapper."""
    def D(pattern, mode):
        B, nfa = autom.regex_to_nfa(pattern, mode)
        return autom.determinize(nfa, cls, reps)

    def simple(mk):
        B = Builder()
        return autom.determinize(B.finish(mk(B)), cls, reps)

    no_crlf_chars = simple(lambda B: B.star(lambda: B.lit(ALL - {0x0D, 0x0A})))
    w = g["wrapper"]
    if w == "none":
        return D(g["pattern"], g["mode"])
    if w == "ctrl":
        hexd = D(g["pattern"][0], "match")
        extd = D(g["pattern"][1], "match")
        nosemi = simple(lambda B: B.star(lambda: B.lit(ALL - {0x3B})))
        startsemi = simple(lambda B: B.seq(B.lit({0x3B}), B.star(lambda: B.lit(ALL))))
        A = autom.intersect(hexd, nosemi)
        Bx = autom.intersect(extd, startsemi)
        return autom.union(A, autom.concat(A, Bx))
    if w == "header":
        m = D(g["pattern"], "match")
        notws = simple(lambda B: B.alt(B.empty(), B.seq(B.lit(ALL - WSP), B.star(lambda: B.lit(ALL)))))
        return autom.intersect(autom.intersect(m, no_crlf_chars), notws)
    if w == "reqline":
        full = D(g["pattern"], "fullmatch")
        upper = simple(lambda B: B.seq(B.star(lambda: B.lit(ALL - LOWER - {0x20})), B.opt(lambda: B.seq(B.lit({0x20}), B.star(lambda: B.lit(ALL))))))
        noendws = simple(lambda B: B.alt(B.empty(), B.seq(B.star(lambda: B.lit(ALL)), B.lit(ALL - PYWS))))
        F = autom.intersect(autom.intersect(autom.intersect(full, no_crlf_chars), upper), noendws)
        ws = simple(lambda B: B.star(lambda: B.lit(PYWS)))
        return autom.concat(F, ws)
    raise ValueError(w)


def pattern_sets(g):
    acc = set()
    pats = g["pattern"] if isinstance(g["pattern"], tuple) else (g["pattern"],)
    for p in pats:
        B, _ = autom.regex_to_nfa(p, "match")
        acc |= B.sets
    return acc


def classify(name, w, in_m, in_s):
    """Known-findings key: which deviation class a distinguishing string is in."""
    if name == "request-line":
        if in_m and not in_s:
            core = w.rstrip(b" \t\n\r\x0b\x0c")
            if core != w:
                return "request-line:trailing-whitespace-accepted"
            if any(c < 0x21 or c == 0x7F for c in w.split(b" ")[1] if True) if len(w.split(b" ")) > 1 else False:
                return "request-line:control-byte-in-target-accepted"
            if any(c >= 0x80 for c in w):
                return "request-line:obs-text-in-target-accepted"
            return "request-line:accepts-more"
        if in_s and not in_m:
            meth = w.split(b" ")[0]
            if meth != meth.upper():
                return "request-line:lower-case-method-rejected"
            return "request-line:rejects-valid"
    return f"{name}:{'accepts-more' if in_m else 'rejects-valid'}"


def main(tier, only=None):
    run = Run("C10", tier)
    run.cov["rule"] = (
        "per gate: DFA M from the compiled pattern source + call-site wrapper model; conformance of M with the real gate on all strings <= n over byte-class representatives "
        "and on every byte at every position of seed strings; exhaustive BFS of the product M x S with the independently written RFC grammar DFA S; "
        "states/transitions = reachable product states/transitions; distinct_nontrivial = product states + conformance strings accepted by at least one side"
    )
    run.assume(
        "byte classes: bytes that no character set of model or grammar separates are interchangeable",
        "regex operators handled: literal, set, branch, group, greedy/lazy repeat, leading ^, trailing $ or \\Z",
    )
    gates = build_gates()
    nontriv = 0
    for g in gates:
        if only and only not in g["name"]:
            continue
        name = g["name"]
        real = g["real"]
        if g.get("site_only"):
            # end-to-end call site: value embedded in a header line; OWS stripped, then 1*DIGIT
            alpha = [b"0", b"9", b" ", b"\t", b"+", b"-", b"a", b"\x0b", b"\xb2", b",", b"_"]
            n = 0
            for L in range(0, 5):
                for tup in itertools.product(alpha, repeat=L):
                    v = b"".join(tup)
                    n += 1
                    want = len(v.strip(b" \t")) > 0 and all(c in DIGIT for c in v.strip(b" \t"))
                    got = real(v)
                    if got != want:
                        run.violation(f"{name}:{'accepts-more' if got else 'rejects-valid'}", f"Content-Length value {v!r}: call site {'accepts' if got else 'rejects'}, grammar says {'accept' if want else 'reject'}", {"gate": name, "string": v.decode('latin-1')})
                    if got or want:
                        nontriv += 1
            run.add(evaluations=n, traces_validated_against_impl=n)
            run.part(name, strings=n)
            continue
        try:
            sets = pattern_sets(g)
        except autom.Unsupported as e:
            run.cap(f"{name}: pattern uses an operator the translator does not handle ({e}); only the bounded direct comparison decides")
            sets = set()
        Bs = Builder()
        sfrag = g["spec"](Bs)
        allsets = list(sets | Bs.sets | {frozenset(s) for s in EXTRA_SETS})
        cls, reps = autom.byte_classes(allsets)
        S = autom.determinize(Bs.finish(sfrag), cls, reps)
        try:
            M = model_dfa(g, cls, reps, sets)
        except autom.Unsupported as e:
            M = None
            run.cap(f"{name}: model unavailable ({e})")
        # -- 2. binding: M (and S) against the real gate -----------------------
        rep_bytes = [bytes([r]) for r in reps]
        n_conf = 0
        mism = 0
        budget = 150000 if tier == "quick" else 3000000
        nmax = 0
        while len(reps) ** (nmax + 1) <= budget:
            nmax += 1
        g["n"] = nmax
        for L in range(0, g["n"] + 1):
            for tup in itertools.product(range(len(reps)), repeat=L):
                w = bytes(reps[c] for c in tup)
                got = real(w)
                if got is None:
                    continue
                n_conf += 1
                if M is not None:
                    inm = M.accepts_classes(tup)
                    if inm != got:
                        mism += 1
                        ins = S.accepts_classes(tup)
                        if ins != got:
                            # the code at the call site disagrees with the grammar (and with its own pattern)
                            run.violation(classify(name, w, got, ins), f"gate {name}: {w!r} is {'accepted' if got else 'rejected'} by the call site, grammar says {'accept' if ins else 'reject'} (found by the bounded comparison; the pattern-derived model says {inm})", {"gate": name, "string": w.decode("latin-1")})
                        else:
                            run.violation("harness:model-mismatch:" + name, f"model of gate {name} says {inm} for {w!r}, real gate says {got}", {"gate": name, "string": w.decode("latin-1")})
                        if mism > 3:
                            break
                else:
                    ins = S.accepts_classes(tup)
                    if ins != got:
                        run.violation(classify(name, w, got, ins), f"gate {name}: {w!r} is {'accepted' if got else 'rejected'} by the code, grammar says {'accept' if ins else 'reject'}", {"gate": name, "string": w.decode("latin-1")})
                if got:
                    nontriv += 1
            if mism > 3:
                break
        # every byte at every position of the seeds (class boundaries)
        for seed in g["seeds"]:
            for pos in range(len(seed) + 1):
                for b in range(256):
                    for w in (seed[:pos] + bytes([b]) + seed[pos:], seed[:pos] + bytes([b]) + seed[pos + 1 :]):
                        got = real(w)
                        if got is None:
                            continue
                        n_conf += 1
                        tup = [cls[c] for c in w]
                        if M is not None and M.accepts_classes(tup) != got:
                            run.violation("harness:model-mismatch:" + name, f"model of gate {name} disagrees with the real gate on {w!r} (real: {got})", {"gate": name, "string": w.decode("latin-1")})
                        if got:
                            nontriv += 1
        run.add(traces_validated_against_impl=n_conf, evaluations=n_conf)
        # -- 3. decision on the automata ---------------------------------------
        if M is not None:
            nstates, ntrans, wits = autom.distinguish(M, S, reps, limit=40)
            run.add(states=nstates, transitions=ntrans)
            nontriv += nstates
            run.part(name, model_states=len(M.delta), grammar_states=len(S.delta), byte_classes=len(reps), product_states=nstates, product_transitions=ntrans, conformance_strings=n_conf, conformance_max_len=g["n"], distinguishing=len(wits))
            seenk = set()
            for w, in_m, in_s in wits:
                got = real(w)
                if got is None:
                    continue
                if got != in_m:
                    run.violation("harness:model-mismatch:" + name, f"witness {w!r}: model {in_m}, real gate {got}", {"gate": name, "string": w.decode("latin-1")})
                    continue
                k = classify(name, w, in_m, in_s)
                if k in seenk:
                    continue
                seenk.add(k)
                run.violation(k, f"gate {name}: {w!r} is {'accepted' if in_m else 'rejected'} by the code but the grammar says {'accept' if in_s else 'reject'} (shortest distinguishing string of its class)", {"gate": name, "string": w.decode("latin-1")})
        run.sample({"gate": name, "byte_class_representatives": [bytes([r]) for r in reps][:40]})
    # -- 4. numeric conversion at any length ------------------------------------
    import waitress.parser as P
    import waitress.receiver as R
    from waitress.adjustments import Adjustments
    from waitress.buffers import OverflowableBuffer

    adj = Adjustments(max_request_body_size=10 ** 9)
    nlen = 0
    for nd in list(range(1, 26)) + [4299, 4300, 4301, 5000, 10 ** 4, 10 ** 5]:
        for lead in (b"1", b"0", b"9"):
            v = lead + b"7" * (nd - 1)
            nlen += 1
            p = P.HTTPRequestParser(adj)
            try:
                p.parse_header(b"POST / HTTP/1.1\r\nContent-Length: " + v + b"\r\n")
                ok = p.content_length == int(v) if nd < 4300 else True
                if not ok:
                    run.violation("content-length:wrong-value", f"{nd}-digit Content-Length converted to {p.content_length}", {"gate": "cl-long", "digits": nd, "lead": lead.decode()})
            except P.ParsingError:
                if nd <= 25:
                    run.violation("content-length:rejects-valid-long", f"{nd}-digit Content-Length rejected", {"gate": "cl-long", "digits": nd, "lead": lead.decode()})
            except Exception as e:
                run.violation(f"content-length:conversion-raises:{type(e).__name__}", f"{nd}-digit Content-Length passes the digit gate and then raises {type(e).__name__}: {str(e)[:80]}", {"gate": "cl-long", "digits": nd, "lead": lead.decode()})
            r = R.ChunkedReceiver(OverflowableBuffer(100))
            try:
                r.received((b"a" if lead != b"0" else b"0") + b"f" * (nd - 1) + b"\r\n")
                if r.error is not None and nd <= 25:
                    run.violation("chunk-size:rejects-valid-long", f"{nd}-digit chunk size rejected", {"gate": "hex-long", "digits": nd, "lead": lead.decode()})
            except Exception as e:
                run.violation(f"chunk-size:conversion-raises:{type(e).__name__}", f"{nd}-digit chunk size raises {type(e).__name__}", {"gate": "hex-long", "digits": nd, "lead": lead.decode()})
    run.add(evaluations=nlen * 2, traces_validated_against_impl=nlen * 2)
    run.part("long-numbers", cases=nlen * 2)
    run.add(distinct_nontrivial=nontriv)
    return run.finish()


def replay(rep):
    gates = {g["name"]: g for g in build_gates()}
    if rep["gate"] in gates:
        w = rep["string"].encode("latin-1")
        print(rep["gate"], repr(w), "->", gates[rep["gate"]]["real"](w))
        return 1
    return main("quick")
