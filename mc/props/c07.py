"""C07  The WSGI environ is the exact PEP 3333 image of the request.

E5: canonically well-formed requests (targets x header sets x bodies x method
x version) x url_prefix / url_scheme / server_name / TCP-vs-unix peer, executed
on the real parser -> task path; the environ handed to the application must
equal the image computed by an independent reference (RFC 3986 splitting,
PEP 3333 naming) and wsgi.input must yield exactly the framed body.
"""
import itertools
import multiprocessing as mp
import random

from .. import common, gen, refhttp, seq
from ..evidence import Run

TARGETS = [
    b"/", b"/a/b", b"/a%20b", b"/a%2Fb", b"/%zz", b"/%", b"/%4", b"/a?x=1&y=%20", b"/a?", b"/a#f", b"/a#f?q", b"/a?q#f", b"//a/b", b"///a",
    b"http://h/p?q=1", b"https://h:8/p%41", b"http://h/", b"*", b"/p", b"/p/", b"/p/q/r", b"/pq", b"/p/q", b"/P", b"/p%2Fq", b"/%70", b"/\xe9", b"/a;b=c",
    b"//a?b?c", b"//a#f#g", b"//a?b#c?d#e", b"/a?b?c", b"/a?b=1#f#g", b"/a#f#g", b"/a??", b"/a?#", b"/?", b"/a%3Fb?c", b"/a%23b#c",
]
HEADER_SETS = [
    [],
    [(b"X-A", b"1")],
    [(b"X-A", b"1"), (b"x-a", b"2")],
    [(b"X_A", b"1"), (b"X-A", b"2")],
    [(b"X-A", b"1"), (b"X_A", b"2")],
    [(b"X-A", b"1"), (b"X-B", b"b"), (b"X-A", b"3")],
    [(b"Content-Type", b"text/x")],
    [(b"Content_Type", b"evil/x"), (b"Content-Type", b"text/y")],
    [(b"Remote-Addr", b"9.9.9.9"), (b"Server-Name", b"evil"), (b"Server-Port", b"1"), (b"Script-Name", b"/x"), (b"Path-Info", b"/y"), (b"Request-Method", b"DELETE")],
    [(b"Wsgi.Input", b"z"), (b"Wsgi.Url-Scheme", b"https"), (b"Http-Host", b"hh"), (b"Query-String", b"q")],
    [(b"Host", b"a.example:81")],
    [(b"X-O", b"\xe9\xff caf\xe9")],
    [(b"X-E", b"")],
    [(b"X-W", b"  \tpadded \t ")],
    [(b"X-F", b"a"), (None, b"  b")],
    [(b"Server-Software", b"x"), (b"Remote-Host", b"y"), (b"Remote-Port", b"1")],
    [(b"X-T", b""), (b"X-T", b"a")],
    [(b"X-T", b"a"), (b"X-T", b"")],
    [(b"X-T", b""), (b"X-T", b""), (b"X-T", b"b")],
    [(b"X-T", b" "), (b"x-t", b"0")],
    # every registered request field name a special case might be written for, repeated: all are joined with ", "
    [(n, b"a=1; b") for n in (b"Cookie", b"Accept", b"Accept-Encoding", b"Accept-Language", b"Cache-Control", b"Authorization", b"User-Agent", b"Referer", b"If-None-Match", b"Range", b"Via", b"Warning", b"Pragma")]
    + [(n, b"c=2") for n in (b"cookie", b"Accept", b"Accept-Encoding", b"accept-language", b"Cache-Control", b"Authorization", b"User-Agent", b"Referer", b"If-None-Match", b"Range", b"Via", b"Warning", b"PRAGMA")],
    [(n, b"x") for n in (b"Origin", b"If-Match", b"If-Modified-Since", b"TE", b"Trailer", b"Upgrade", b"Date", b"From", b"Max-Forwards", b"Proxy-Authorization", b"Set-Cookie")]
    + [(n, b"y, z") for n in (b"Origin", b"If-Match", b"If-Modified-Since", b"TE", b"Trailer", b"Upgrade", b"Date", b"From", b"Max-Forwards", b"Proxy-Authorization", b"Set-Cookie")],
]
BODIES = ["none", "cl", "chunked", "big-cl", "big-chunked", "huge-cl", "huge-chunked"]
CONFIGS = [
    dict(url_prefix="", url_scheme="http", unix=False, server_name="waitress.invalid"),
    dict(url_prefix="/p", url_scheme="https", unix=False, server_name="srv.example"),
    dict(url_prefix="/p/q", url_scheme="http", unix=True, server_name="waitress.invalid"),
    dict(url_prefix="/p/", url_scheme="http", unix=False, server_name="waitress.invalid"),
    # bodies that first fill an in-memory file (>= 8192 bytes) and then migrate to a temporary file
    dict(url_prefix="", url_scheme="http", unix=False, server_name="waitress.invalid", inbuf_overflow=9000),
]
_envs = {}


def get_env(ci):
    e = _envs.get(ci)
    if e is None:
        c = CONFIGS[ci]
        e = seq.Env(None, unix=c["unix"], url_prefix=c["url_prefix"], url_scheme=c["url_scheme"], server_name=c["server_name"], inbuf_overflow=c.get("inbuf_overflow", 16))
        _envs[ci] = e
    return e


# ---------------------------------------------------------------------------
# reference image
# ---------------------------------------------------------------------------
HEXD = b"0123456789abcdefABCDEF"


def pct_decode(b):
    out = bytearray()
    i = 0
    while i < len(b):
        if b[i] == 0x25 and i + 2 <= len(b) - 1 and b[i + 1] in HEXD and b[i + 2] in HEXD:
            out.append(int(b[i + 1 : i + 3].decode(), 16))
            i += 3
        else:
            out.append(b[i])
            i += 1
    return bytes(out)


def split_target(t):
    """RFC 3986 / RFC 9112 3.2: -> (path, query) raw bytes"""
    frag = t.find(b"#")
    if frag >= 0:
        t = t[:frag]
    q = t.find(b"?")
    query = b""
    if q >= 0:
        t, query = t[:q], t[q + 1 :]
    if t.startswith((b"http://", b"https://")):
        rest = t.split(b"://", 1)[1]
        slash = rest.find(b"/")
        t = b"" if slash < 0 else rest[slash:]
    return t, query


def environ_of(msg, cfg, peer):
    path, query = split_target(msg.target)
    path = pct_decode(path).decode("latin-1")
    if path.startswith("/"):
        path = "/" + path.lstrip("/")  # documented: extra leading slashes are collapsed
    prefix = cfg["url_prefix"].strip()
    if prefix:
        prefix = "/" + prefix.strip("/") if prefix.strip("/") else ""
    script = prefix
    if prefix:
        if path == prefix:
            path = ""
        elif path.startswith(prefix + "/"):
            path = path[len(prefix) :]
    ver = msg.version.decode() if msg.version in (b"1.0", b"1.1") else "1.0"
    env = {
        "REQUEST_METHOD": msg.method.decode("latin-1"),  # methods are case-sensitive: the image is exact
        "SERVER_PROTOCOL": "HTTP/" + ver,
        "SCRIPT_NAME": script,
        "PATH_INFO": path,
        "QUERY_STRING": query.decode("latin-1"),
        "REQUEST_URI": msg.target.decode("latin-1"),
        "SERVER_NAME": cfg["server_name"],
        "SERVER_PORT": "8080" if not cfg["unix"] else None,
        "SERVER_SOFTWARE": "waitress",
        "REMOTE_ADDR": peer[0],
        "REMOTE_HOST": peer[0],
        "REMOTE_PORT": str(peer[1]),
        "wsgi.url_scheme": cfg["url_scheme"],
    }
    hdr = {}
    order = []
    for name, val in msg.fields:
        if b"_" in name:
            continue
        key = name.upper().replace(b"-", b"_").decode("latin-1")
        v = val.decode("latin-1")
        if key in hdr:
            hdr[key] += ", " + v
        else:
            hdr[key] = v
            order.append(key)
    if msg.version == b"1.1":
        hdr.pop("TRANSFER_ENCODING", None)
    if msg.framing == "chunked":
        hdr["CONTENT_LENGTH"] = str(len(msg.body))
    for key, v in hdr.items():
        k = key if key in ("CONTENT_LENGTH", "CONTENT_TYPE") else "HTTP_" + key
        if k not in env:
            env[k] = v
    return env


# ---------------------------------------------------------------------------
def build_request(method, target, version, headers, body):
    fields = list(headers)
    payload = None
    if body == "cl":
        fields.append((b"Content-Length", b"3", "cl"))
        payload = b"abc"
    elif body == "big-cl":
        fields.append((b"Content-Length", b"40", "cl"))
        payload = bytes(range(48, 88))
    elif body == "chunked":
        fields.append((b"Transfer-Encoding", b"chunked", "te"))
        payload = gen.chunked_body([1, 2], b";x=y", ((b"T", b"v"),))
    elif body == "big-chunked":
        fields.append((b"Transfer-Encoding", b"chunked", "te"))
        payload = gen.chunked_body([17, 9])
    elif body == "huge-cl":
        fields.append((b"Content-Length", b"10000", "cl"))
        payload = bytes((i * 7 + 1) % 251 for i in range(10000))
    elif body == "huge-chunked":
        fields.append((b"Transfer-Encoding", b"chunked", "te"))
        data = bytes((i * 5 + 3) % 251 for i in range(10000))
        payload = b"1770\r\n" + data[:6000] + b"\r\nfa0\r\n" + data[6000:] + b"\r\n0\r\n\r\n"
    return gen.render(gen.message(method, target, version, fields, payload))


def run_case(case):
    env = get_env(case["cfg"])
    env.activate()
    got = []

    def app(environ, start_response):
        inp = environ["wsgi.input"]
        body = inp.read()
        img = {}
        nonstr = []
        for k, v in environ.items():
            if k.startswith("wsgi.") and k != "wsgi.url_scheme" or k.startswith("waitress."):
                continue
            if type(v) is not str:
                nonstr.append((k, type(v).__name__))
                continue
            try:
                v.encode("latin-1")
            except UnicodeEncodeError:
                nonstr.append((k, "non-latin-1"))
            img[k] = v
        got.append((img, body, nonstr))
        start_response("200 OK", [("Content-Length", "0")])
        return []

    env.app = app
    del env.escaped[:]
    peer = ("10.1.2.3", 4567)
    c = env.connect(peer=peer)
    stream = case["stream"]
    if case.get("follow"):
        stream = stream + FOLLOW
    c.send(stream)
    wire, closed = c.wire, c.closed
    if not c.closed and c.ch is not None:
        c.ch.handle_close()
    return got, wire, list(env.escaped)


FOLLOW = b"PUT /p/next?z=9 HTTP/1.1\r\nHost: second\r\nX-Second: 2\r\nContent-Length: 2\r\n\r\nzz"


def judge(case, got, wire, escaped):
    v = []
    cfg = CONFIGS[case["cfg"]]
    if case.get("follow") and len(got) == 2:
        # the request behind it must be seen with its own fields only
        evs2 = refhttp.parse_requests(FOLLOW)
        peer = ("localhost", None) if cfg["unix"] else ("10.1.2.3", 4567)
        want2 = environ_of(evs2[0], cfg, peer)
        img2 = dict(got[1][0])
        if cfg["unix"]:
            want2.pop("SERVER_PORT")
            img2.pop("SERVER_PORT", None)
        if img2 != want2 or got[1][1] != b"zz":
            diff = {k: (img2.get(k), want2.get(k)) for k in set(img2) | set(want2) if img2.get(k) != want2.get(k)}
            v.append(("pipelined-request-image", f"the request pipelined behind the case is seen as {diff} body={got[1][1]!r} (stream {case['stream'][:80]!r})"))
        got = got[:1]
    elif case.get("follow") and len(got) == 1:
        evs = refhttp.parse_requests(case["stream"])
        if evs and isinstance(evs[0], refhttp.Msg) and not (evs[0].conn_close or evs[0].must_close):
            v.append(("pipelined-request-lost", f"the request pipelined behind the case was not delivered (stream {case['stream'][:80]!r})"))
    for e in escaped:
        v.append((f"escaped:{e[1]}", str(e)))
    evs = refhttp.parse_requests(case["stream"])
    if not evs or not isinstance(evs[0], refhttp.Msg):
        v.append(("harness:reference-rejects", f"reference does not accept the corpus request: {evs}"))
        return v
    msg = evs[0]
    if len(got) != 1:
        if msg.either:
            return v
        v.append(("not-delivered", f"accepted request not delivered exactly once ({len(got)} calls); wire={wire[:80]!r}"))
        return v
    img, body, nonstr = got[0]
    peer = ("localhost", None) if cfg["unix"] else ("10.1.2.3", 4567)
    want = environ_of(msg, cfg, peer)
    if cfg["unix"]:
        want.pop("SERVER_PORT")
        img = dict(img)
        img.pop("SERVER_PORT", None)
    for k, t in nonstr:
        v.append(("non-native-string", f"environ[{k!r}] is {t}"))
    if body != msg.body:
        v.append(("body", f"wsgi.input yields {body[:50]!r}, framed body is {msg.body[:50]!r}"))
    if msg.framing != "none" and img.get("CONTENT_LENGTH") is not None and int(img["CONTENT_LENGTH"]) != len(body):
        v.append(("content-length-mismatch", f"CONTENT_LENGTH={img['CONTENT_LENGTH']} but wsgi.input yields {len(body)} bytes"))
    if "obs-fold" in msg.either:
        # value of a folded field: joined line, compare modulo the joint
        for k in list(want):
            if k in img and want[k] != img[k] and want[k].split() == img[k].split():
                want[k] = img[k]
    for k in sorted(set(want) | set(img)):
        if want.get(k) != img.get(k):
            kind = "extra-key" if k not in want else ("missing-key" if k not in img else "value")
            fam = k if not k.startswith("HTTP_") else "HTTP_*"
            v.append((f"environ-{kind}:{fam}", f"environ[{k!r}] = {img.get(k)!r}, reference image says {want.get(k)!r} (target {msg.target!r}, cfg {cfg})"))
    return v


def cases(tier):
    methods = [(b"GET", b"HTTP/1.1"), (b"POST", b"HTTP/1.0"), (b"OPTIONS", b"HTTP/1.1")] if tier == "quick" else [(m, v) for m in (b"GET", b"POST", b"OPTIONS", b"PURGE") for v in (b"HTTP/1.1", b"HTTP/1.0")]
    # methods that are not upper-case may be refused (policy); if served they must be shown as sent
    for m in (b"Get", b"PoST", b"get", b"M-Search", b"M-SEARCH"):
        for body in ("none", "cl"):
            yield dict(cfg=0, stream=build_request(m, b"/a/b", b"HTTP/1.1", HEADER_SETS[1], body), label=(m, b"HTTP/1.1", b"/a/b", 1, body))
    for ci in range(len(CONFIGS)):
        for (method, ver), target, hs, body in itertools.product(methods, TARGETS, range(len(HEADER_SETS)), BODIES):
            if body in ("chunked", "big-chunked", "huge-chunked") and ver != b"HTTP/1.1":
                continue
            if body.startswith("huge") != ("inbuf_overflow" in CONFIGS[ci]):
                continue
            if body.startswith("huge") and (hs > 1 or target not in (b"/", b"/a?x=1&y=%20")):
                continue
            if tier == "quick" and body.startswith("big") and hs % 3:
                continue
            stream = build_request(method, target, ver, HEADER_SETS[hs], body)
            yield dict(cfg=ci, stream=stream, label=(method, ver, target, hs, body))
            if ver == b"HTTP/1.1" and (tier == "thorough" or target in (b"/", b"/a%20b", b"http://h/p?q=1")):
                yield dict(cfg=ci, stream=stream, label=(method, ver, target, hs, body), follow=True)


def _batch(items):
    out = []
    classes = set()
    for case in items:
        got, wire, escaped = run_case(case)
        v = judge(case, got, wire, escaped)
        m, ver, target, hs, body = case["label"]
        classes.add((case["cfg"], target, hs, body, len(got)))
        for key, what in v:
            out.append((key, what, case))
    return len(items), classes, out


def main(tier, only=None):
    run = Run("C07", tier)
    rnd = random.Random(common.SEED)
    run.cov["rule"] = (
        f"{len(TARGETS)} targets (origin/absolute/asterisk, // prefixes, valid and invalid percent-escapes, ?/#) x {len(HEADER_SETS)} header sets (aliases, repeats, CGI-shadowing names, obs-text, empty, padded, folded) "
        f"x bodies {BODIES} (big = beyond inbuf_overflow, tempfile path) x method/version x {len(CONFIGS)} configurations (url_prefix, url_scheme, server_name, TCP/unix peer); environ compared key by key with an independent reference image; "
        "distinct_nontrivial = distinct (config, target, header set, body kind, delivered) tuples"
    )
    run.assume("collapsing of extra leading slashes in the path is part of the reference (documented waitress behaviour, issue 260)", "REQUEST_URI (a waitress extension) is the raw target")
    items = list(cases(tier))
    if only:
        items = [c for c in items if only in repr(c["label"])]
    rnd.shuffle(items)
    batches = [items[i : i + 300] for i in range(0, len(items), 300)]
    ctx = mp.get_context("fork")
    n = 0
    classes = set()
    viol = []
    with ctx.Pool(common.NPROC) as pool:
        for k, cl, out in pool.imap_unordered(_batch, batches):
            n += k
            classes |= cl
            viol += out
    run.add(states=len(classes), transitions=n, traces_validated_against_impl=n, evaluations=n, distinct_nontrivial=len(classes))
    run.part("requests", total=n)
    for c in items[:3]:
        run.sample({"cfg": CONFIGS[c["cfg"]], "stream": c["stream"][:200]})
    seen = {}
    for key, what, case in viol:
        seen.setdefault(key, []).append((what, case))
    for k, lst in sorted(seen.items()):
        lst.sort(key=lambda x: len(x[1]["stream"]))
        what, case = lst[0]
        run.violation(k, f"{what} | stream={case['stream'][:200]!r} [{len(lst)} cases]", {"cfg": case["cfg"], "stream": case["stream"].decode("latin-1"), "follow": case.get("follow", False)})
    return run.finish()


def replay(rep):
    case = dict(cfg=rep["cfg"], stream=rep["stream"].encode("latin-1"), label=None, follow=rep.get("follow"))
    got, wire, escaped = run_case(case)
    print("environ:", got)
    v = judge(case, got, wire, escaped)
    for k, w in v:
        print("VIOLATION-DETAIL", k, w)
    return 1 if v else 0
