"""C06  Oversize and malformed input is refused totally: error response, close, no crash.

E5 + E2: boundary sweeps of both limits (L-1, L, L+1 around every size),
thousand-digit numbers, unterminated control lines fed in reads of several
sizes, and the C01 token search repeated under tiny limits so that the limit
is crossed at every position; every case runs through the real server and is
compared with the reference verdict, the consumption bound and totality.
"""
import hashlib
import multiprocessing as mp
import random
import signal

from .. import apps, common, gen, oracle, refhttp, seq
from ..evidence import Run
from . import c01

_env = {}


def env_for(recv_bytes):
    e = _env.get(recv_bytes)
    if e is None:
        e = seq.Env(None, recv_bytes=recv_bytes)
        e.app = apps.echo_app(e)
        _env[recv_bytes] = e
    return e


class Hang(Exception):
    pass


def _alarm(sig, frm):
    raise Hang()


def run_case(case):
    """case: dict(stream, max_header, max_body, recv_bytes, feed) -> (violations, class)"""
    stream = case["stream"]
    env = env_for(case.get("recv_bytes", 8192))
    env.activate()
    env.adj.max_request_header_size = case.get("max_header", 262144)
    env.adj.max_request_body_size = case.get("max_body", 1073741824)
    del env.calls[:]
    del env.escaped[:]
    del env.disp.worker_exc[:]
    c = env.connect()
    v = []
    signal.signal(signal.SIGALRM, _alarm)
    signal.setitimer(signal.ITIMER_REAL, 20.0)
    try:
        feed = case.get("feed")
        if feed:
            for i in range(0, len(stream), feed):
                c.send(stream[i : i + feed])
        else:
            c.send(stream)
    except Hang:
        v.append(("hang", "processing the stream did not terminate within 20 s"))
    finally:
        signal.setitimer(signal.ITIMER_REAL, 0)
    obs = oracle.Observed(env.calls, c.wire, c.closed, env.escaped, env.disp.worker_exc)
    mh, mb = env.adj.max_request_header_size, env.adj.max_request_body_size
    if not v:
        v = oracle.judge(stream, obs, mh, mb, complete=case.get("complete", True))
    # exact refusal code for the limits
    evs = refhttp.parse_requests(stream, mh, mb)
    last = evs[-1] if evs else None
    if isinstance(last, refhttp.Reject) and last.codes in ((431,), (413,)) and not v:
        try:
            resps = [r for r in refhttp.parse_responses(obs.wire, [x[0].encode() for x in obs.calls] + [b"GET"], closed=obs.closed) if r.status >= 200]
        except refhttp.WireError:
            resps = []
        tail = resps[len(obs.calls) :]
        if not tail or tail[0].status != last.codes[0]:
            v.append((f"wrong-refusal-code:{last.codes[0]}", f"expected {last.codes[0]} ({last.reason}), got {[r.status for r in tail]}"))
    if case["kind"] == "expect-too-large" and b"100 Continue" in obs.wire:
        v.append(("interim-before-refusal", "a request refused at the end of its header block (declared body over the limit) was first sent '100 Continue'"))
    # consumption bound: within one read of crossing the limit
    consumed = len(stream) - len(c.sock.inq)
    bound = case.get("consume_bound")
    if bound is not None and consumed > bound:
        v.append(("consumed-beyond-limit", f"{consumed} bytes consumed, bound {bound} (limit + one read)"))
    cls = (len(obs.calls), obs.wire[9:12], obs.closed, consumed > 0)
    if not c.closed and c.ch is not None:
        c.ch.handle_close()
    return v, cls


def _batch(cases):
    out = []
    classes = set()
    for case in cases:
        v, cls = run_case(case)
        classes.add((case["kind"],) + cls)
        for key, what in v:
            out.append((key, what, case))
    return len(cases), classes, out


# ---------------------------------------------------------------------------
def head_of_len(L, pipelined=b""):
    """a valid GET whose head (incl. CRLFCRLF) is exactly L bytes"""
    base = b"GET / HTTP/1.1\r\nX: \r\n\r\n"
    pad = L - len(base)
    if pad < 0:
        return None
    return b"GET / HTTP/1.1\r\nX: " + b"a" * pad + b"\r\n\r\n" + pipelined


def cases(tier):
    out = []
    S = oracle.SENTINEL
    # (1) header limit swept around the head length, and head lengths around tiny limits
    for L in ([24, 25, 40, 64, 100, 300] if tier == "quick" else [24, 25, 26, 31, 40, 63, 64, 65, 100, 255, 256, 300, 1000, 9000]):
        s = head_of_len(L)
        for mh in (L - 1, L, L + 1):
            for rb in (1, 7, 8192):
                out.append(dict(kind="head-limit", stream=s + S, max_header=mh, recv_bytes=rb, consume_bound=(L if mh > L else mh + rb) + (len(S) if mh > L else 0)))
    for mh in (8, 16, 24, 32, 64):
        for extra in (0, 1, 40):
            # unterminated request line / header line: never a CRLFCRLF
            for body in (b"GET /" + b"a" * (mh + extra), b"GET / HTTP/1.1\r\nX: " + b"b" * (mh + extra), b"GET / HTTP/1.1\r\n" + b"Y: 1\r\n" * (mh // 6 + 1 + extra)):
                for rb in (1, 7, 8192):
                    out.append(dict(kind="unterminated-head", stream=body, max_header=mh, recv_bytes=rb, consume_bound=mh + rb, complete=True))
    # (2) Content-Length around the body limit
    for mb in (1, 2, 8, 100, 70000):
        for d in (-1, 0, 1):
            n = mb + d
            if n < 0:
                continue
            body = b"x" * min(n, 200000)
            head = b"POST / HTTP/1.1\r\nContent-Length: %d\r\n\r\n" % n
            out.append(dict(kind="cl-limit", stream=head + body + S, max_body=mb, consume_bound=(len(head) + 8192) if n >= mb else None))
    # an expecting request that is refused outright must not be invited to send its body
    for mb in (8, 100):
        for n in (mb, mb + 1, 20000):
            head = b"POST / HTTP/1.1\r\nExpect: 100-continue\r\nContent-Length: %d\r\n\r\n" % n
            for rb in (7, 8192):
                out.append(dict(kind="expect-too-large", stream=head + b"x" * n + S, max_body=mb, recv_bytes=rb, consume_bound=len(head) + 2 * rb))
    # (3) chunked bodies straddling the limit (decoded and raw)
    for mb in (4, 8, 16, 40):
        for sizes in ([mb - 1], [mb], [mb + 1], [1] * (mb - 1), [1] * mb, [mb // 2, mb // 2], [mb // 2, mb - mb // 2 - 1], [2, mb]):
            sizes = [x for x in sizes if x > 0]
            toks = gen.message(b"POST", b"/", b"HTTP/1.1", [(b"Transfer-Encoding", b"chunked", "te")], gen.chunked_body(sizes))
            s = gen.render(toks)
            for rb in (1, 7, 8192):
                out.append(dict(kind="chunked-limit", stream=s + S, max_body=mb, recv_bytes=rb))
    # unterminated chunk-size line / extension / trailer under a body limit
    ch = b"POST / HTTP/1.1\r\nTransfer-Encoding: chunked\r\n\r\n"
    for mb in (8, 64):
        for tail in (b"1" * (mb + 50), b"1;" + b"a" * (mb + 50), b"0\r\nT: " + b"v" * (mb + 50), b"3\r\nabc" + b"\r" * (mb + 50), b"0\r\n" + b"A: b\r\n" * (mb + 9)):
            for rb in (1, 7, 8192):
                out.append(dict(kind="unterminated-chunked", stream=ch + tail, max_body=mb, recv_bytes=rb, consume_bound=len(ch) + mb + rb))
    # long but legal chunk-size lines (extension / leading zeros): accepted, however the line is cut into reads
    for N in (1000, 1030, 1500, 5000):
        for line in (b"3;a=" + b"x" * N, b"0" * N + b"3", b"3;" + b";".join([b"e"] * (N // 2))):
            for rb in (1, 7, 1024, 8192):
                out.append(dict(kind="long-control-line", stream=ch + line + b"\r\nabc\r\n0\r\n\r\n" + S, max_body=10 ** 6, recv_bytes=rb))
    # (4) long numbers
    for nd in list(range(1, 26)) + [4299, 4300, 4301, 5000] + ([100000] if tier == "thorough" else []):
        for lead in (b"1", b"0"):
            v = lead + b"3" * (nd - 1)
            out.append(dict(kind="long-cl", stream=b"POST / HTTP/1.1\r\nContent-Length: " + v + b"\r\n\r\nabc" + S, max_body=10 ** 9))
            out.append(dict(kind="long-chunk-size", stream=ch + (b"a" if lead == b"1" else b"0") + b"0" * (nd - 1) + b"\r\nabc", max_body=10 ** 9, complete=True))
            out.append(dict(kind="long-cl-te", stream=b"POST / HTTP/1.1\r\nTransfer-Encoding: chunked\r\nContent-Length: " + v + b"\r\n\r\n0\r\n\r\n" + S))
    # malformed header lines that also carry obs-text (error paths that format the offending line)
    for line in (b"X: a\xe9\nb", b"X: \xe9\rb", b" \xe9lead: v", b"\t\xff", b"X\xe9: v", b"X : \xe9", b"\xe9", b"X: v\r\n \xe9\nfold", b"X: \xc3\x28\n"):
        for ver in (b"HTTP/1.1", b"HTTP/1.0"):
            out.append(dict(kind="bad-line-obs-text", stream=b"GET / " + ver + b"\r\n" + line + b"\r\nHost: h\r\n\r\n" + S))
            out.append(dict(kind="bad-line-obs-text", stream=b"GET / " + ver + b"\r\nHost: h\r\n" + line + b"\r\n\r\n" + S))
        out.append(dict(kind="bad-line-obs-text", stream=ch + b"0\r\n" + line + b"\r\n\r\n" + S))
    # inputs that make a backtracking matcher work hard: long runs that almost match
    for N in (30, 200, 3000):
        x = b"x" * N
        for ext in (b';a="' + x, b';a="' + x + b'"junk', b';a="' + b"\\x" * N, b";a=" + x + b"\x00", b";" + x + b'="' + x, b';a="' + x + b"\x7f" + b'"', b";a" * N + b";", b';a="' + b" \t" * N + b"\x00"):
            out.append(dict(kind="pathological", stream=ch + b"4" + ext + b"\r\nabcd\r\n0\r\n\r\n" + S, max_body=10 ** 6))
        for line in (b"X:" + b" \t" * N + b"\x00", b"X: " + b"a " * N + b"\x01", b"X" * N + b" : v", b"X: " + x + b"\r", b"X:" + b" " * N):
            out.append(dict(kind="pathological", stream=b"GET / HTTP/1.1\r\n" + line + b"\r\n\r\n" + S, max_header=10 ** 6))
        for rl in (b"GET " + b"http://" + b"a:" * N + b"/ HTTP/1.1", b"GET /" + b"%" * N + b" HTTP/1.1", b"GET " + b"/" * N + b" HTTP/1.1 ", b"GET http://" + x + b":" + b"9" * N + b"/ HTTP/1.1"):
            out.append(dict(kind="pathological", stream=rl + b"\r\nHost: h\r\n\r\n" + S, max_header=10 ** 6))
    # odd targets that reach urlsplit / unquote
    for t in (b"http://[/x", b"http://[::1/x", b"//[", b"http://h:99999999/x", b"/%", b"/%zz", b"/%00", b"http://\xff/", b"*", b"/" + b"%41" * 50, b"http://[v1.a]/", b"http://[::1]:x/", b"h://[", b"[", b"/\xff\xfe", b"?", b"#", b"http://h/#?"):
        for ver in (b" HTTP/1.1", b" HTTP/1.0", b""):
            out.append(dict(kind="odd-target", stream=b"GET " + t + ver + b"\r\nHost: h\r\n\r\n" + S))
    return out


def _token_search(args):
    return c01._token_search(args)


def main(tier, only=None):
    run = Run("C06", tier)
    rnd = random.Random(common.SEED)
    run.cov["rule"] = (
        "boundary sweeps: head length L vs max_request_header_size in {L-1,L,L+1} x recv_bytes {1,7,8192}; unterminated request/header/chunk-size/extension/trailer lines past tiny limits; "
        "Content-Length and chunked sizes at limit-1/limit/limit+1; numbers of 1..25, 4299..4301, 5000(, 10^5) digits; odd targets; plus the C01 token BFS under limits (header 24 / body 8); "
        "each case executed on the real server and compared with the reference verdict (exact 431/413), the consumption bound (limit + one read) and totality (no escaped exception, no hang)"
    )
    run.assume("lookahead 0 (default): with lookahead > 0 the channel may buffer further requests by design (C11 shows they are never executed)", "a case running longer than 20 s counts as a hang")
    items = cases(tier)
    if only:
        items = [c for c in items if only in c["kind"]]
    rnd.shuffle(items)
    batches = [items[i : i + 40] for i in range(0, len(items), 40)]
    # token search under tiny limits
    c01.CONFIGS["tiny"] = {"max_request_header_size": 24 + len(c01.HEAD_LINE), "max_request_body_size": 8}
    twork = []
    if not only or only == "tokens":
        d = 5 if tier == "quick" else 6
        for t1 in c01.CHUNK_ALPHA:
            for t2 in c01.CHUNK_ALPHA:
                twork.append(("tiny-body", c01.CHUNK_HEAD, c01.CHUNK_ALPHA, (t1, t2), d))
        for t1 in c01.HEAD_ALPHA:
            for t2 in c01.HEAD_ALPHA:
                twork.append(("tiny", c01.HEAD_LINE, c01.HEAD_ALPHA, (t1, t2), d))
    c01.CONFIGS["tiny-body"] = {"max_request_body_size": 8}
    rnd.shuffle(twork)
    ctx = mp.get_context("fork")
    classes = set()
    viol = []
    n = 0
    with ctx.Pool(common.NPROC) as pool:
        r1 = pool.imap_unordered(_batch, batches)
        r2 = pool.imap_unordered(_token_search, twork)
        for k, cl, out in r1:
            n += k
            classes |= cl
            viol += out
        tt = tp = ts = 0
        for trans, probes, nseen, out in r2:
            tt += trans
            tp += probes
            ts += nseen
            for key, what, label, stream in out:
                viol.append((key, what, dict(kind="tokens", stream=stream, cfg=label[1])))
    run.add(states=len(classes) + ts, transitions=n + tt + tp, traces_validated_against_impl=n + tp, evaluations=n + tt, distinct_nontrivial=len(classes) + ts)
    kinds = {}
    for c in items:
        kinds[c["kind"]] = kinds.get(c["kind"], 0) + 1
    run.part("boundary-cases", **kinds)
    run.part("token-search-under-limits", transitions=tt, completion_probes=tp, states=ts)
    for c in items[:3]:
        run.sample({k: (v[:120] if isinstance(v, bytes) else v) for k, v in c.items()})
    seen = {}
    for key, what, case in viol:
        k = f"{case['kind']}:{key}"
        seen.setdefault(k, []).append((what, case))
    for k, lst in sorted(seen.items()):
        lst.sort(key=lambda x: len(x[1]["stream"]))
        what, case = lst[0]
        rep = dict(case)
        rep["stream"] = case["stream"].decode("latin-1")
        run.violation(k, f"{what} | stream={case['stream'][:160]!r} limits=({case.get('max_header')},{case.get('max_body')}) recv={case.get('recv_bytes')} [{len(lst)} cases]", rep)
    return run.finish()


def replay(rep):
    case = dict(rep)
    case["stream"] = rep["stream"].encode("latin-1")
    if case["kind"] == "tokens":
        cfgs = {"tiny": {"max_request_header_size": 24 + len(c01.HEAD_LINE), "max_request_body_size": 8}, "tiny-body": {"max_request_body_size": 8}}
        lim = cfgs.get(case.get("cfg"), {})
        case["max_header"] = lim.get("max_request_header_size", 262144)
        case["max_body"] = lim.get("max_request_body_size", 1073741824)
    v, cls = run_case(case)
    print("class:", cls)
    for k, w in v:
        print("VIOLATION-DETAIL", k, w)
    return 1 if v else 0
