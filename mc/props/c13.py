"""C13  Client faults are contained; teardown happens once, on the I/O thread only.

E1: listener + connection A (faulted, arrives through accept so that the
set-up calls can fail too) + connection B (bystander); every placement of up
to k faults from {ECONNRESET, EPIPE, ENOTCONN, EBADF, EINVAL, ETIMEDOUT, generic OSError}
on A's setblocking/getsockopt/setsockopt/recv/send and on accept, plus client
EOF / reset events, x pre-emptions around the fault.
"""
import errno

from .. import chan, explore, venv
from ..evidence import Run
from . import c04

MENU = (errno.ECONNRESET, errno.EPIPE, errno.ENOTCONN, errno.EBADF, errno.EINVAL, errno.ETIMEDOUT, -1)  # ETIMEDOUT: a dead peer that waitress does not class as a disconnect


class Faults(chan.ChannelScenario):
    name = "faults"
    monitor_extra = ("wasyncore", "server")
    horizon = 12000

    def configure(self, S):
        p = self.params
        S.fault_menu = tuple(p.get("menu", MENU))
        S.max_faults = p.get("max_faults", 1)
        sites = set(p.get("sites", ["setblocking", "getsockopt", "setsockopt", "recv", "send", "accept"]))
        S.fault_sites = lambda sock, op: (sock.name == "A" and op in sites) or (sock.name == "listen" and op == "accept" and "accept" in sites)

    def build(self, S, W):
        p = self.params
        flags = {}
        progs = {"*": dict(body=[b"ok"]), "/big": dict(body=[b"y" * 30, b"z" * 30], cl=False)}
        app = chan.App(S, progs, flags)
        adj_kw = dict(channel_request_lookahead=p.get("lookahead", 0))
        adj_kw.update(p.get("adj") or {})
        streamB = c04.req(9)
        refB = chan.reference_wire("faults-B", adj_kw, progs, streamB)
        fb = c04.finals(refB[0], 1)
        if not fb or fb[0][0] != 200 or fb[0][2] != b"ok":
            raise RuntimeError(f"harness self-check: bystander reference is not a plain 200: {refB[0][:100]!r}")
        srv, m, listener, disp = self.make_server(S, W, app, adj_kw, p.get("workers", 1))
        chB, sockB = self.make_channel(W, srv, m, "B", peer=("127.0.0.2", 40002))
        chB.received(streamB)
        sockA = venv.VSock(W, "A", ("127.0.0.1", 40001))
        a_stream = p["a_pre"].encode("latin-1")
        sockA.client_send(a_stream)
        if p.get("a_window") is not None:
            sockA.window = p["a_window"]
        listener.backlog.append(sockA)
        for ev in p.get("a_events", []):
            if ev == "eof":
                S.env_events.append((None, lambda: sockA.client_eof(), "A:eof"))
            elif ev == "reset":
                S.env_events.append((None, lambda: sockA.client_reset(), "A:reset"))
            elif ev == "drain":
                S.env_events.append((None, lambda: sockA.client_drain(None), "A:drain"))
            elif ev.startswith("body:"):
                S.env_events.append((lambda: b"100 Continue" in sockA.out, lambda d=ev[5:].encode(): sockA.client_send(d), "A:body"))
        self.start_io(S, srv, m, p.get("poll2", False))
        made = []
        orig_cls = srv.channel_class

        accepted = []

        def channel_class(*a, **kw):
            ch = orig_cls(*a, **kw)
            made.append(ch)
            orig_ws = ch.write_soon

            def write_soon(data):
                dead = ch.socket is None
                r = orig_ws(data)
                if dead and len(data):
                    accepted.append(len(data))
                return r

            ch.write_soon = write_soon
            return ch

        srv.channel_class = channel_class

        def fp():
            parts = []
            for fd, o in sorted(m.items()):
                parts.append((fd, type(o).__name__, getattr(o, "will_close", None), getattr(o, "total_outbufs_len", None), len(getattr(o, "requests", ()) or ())))
            return (tuple(parts), len(disp.queue), len(sockA.out), len(sockB.out), sockA.closed, sockB.closed, listener.closed, len(sockA.inq), sockA.reset)

        S.fp = fp
        return dict(srv=srv, map=m, listener=listener, disp=disp, sockA=sockA, sockB=sockB, chB=chB, refB=refB, app=app, made=made, accepted=accepted)

    def oracle(self, ctx, S, W, reason):
        v = []
        srv, m, listener, sockA, sockB = ctx["srv"], ctx["map"], ctx["listener"], ctx["sockA"], ctx["sockB"]
        if reason == "livelock":
            v.append(("livelock", "the I/O thread spins with no other thread able to run"))
        elif reason != "quiescent":
            v.append(("end:" + reason, f"execution ended with {reason}"))
        for name, exc, tb in S.crashed:
            who = "io" if name == "io" else "worker"
            v.append((f"thread-died:{who}", f"{name} died: {exc}\n{tb[-300:]}"))
        io = [t for t in S.threads if t.name == "io"][0]
        if io.state == "done" and not any(n == "io" for n, _, _ in S.crashed):
            v.append(("io-loop-exited", "the I/O loop returned (socket map empty?)"))
        workers = [t for t in S.threads if t.name.startswith("waitress-")]
        if any(t.state == "done" for t in workers):
            v.append(("worker-exited", "a worker thread ended"))
        if listener.closed or listener.fd not in m:
            v.append(("listener-closed", f"the listening socket was closed / removed from the map (closed={listener.closed}, by {listener.close_calls})"))
        tr = srv.trigger
        if tr._closed or tr._fileno not in m:
            v.append(("trigger-closed", "the wake-up pipe was closed / removed from the map"))
        # bystander
        outB = bytes(sockB.out)
        a, b = c04.finals(outB, 1), c04.finals(ctx["refB"][0], 1)
        if a != b:
            v.append(("bystander-disturbed", f"connection B received {outB[:80]!r} ({len(outB)} bytes), reference {len(ctx['refB'][0])} bytes; closed={sockB.closed}"))
        # who closes sockets, who edits the map
        for s in (sockA, sockB, listener):
            bad = [n for n in s.close_calls if n not in ("io", "main")]
            if bad:
                v.append(("socket-closed-by-worker", f"socket {s.name} closed by {bad}"))
            if len([n for n in s.close_calls if n != "main"]) > 1:
                v.append(("socket-closed-twice", f"socket {s.name} close() called by {s.close_calls}"))
        bad = [(k, fd, who) for k, fd, who in m.mutations if who not in ("io", "main")]
        if bad:
            v.append(("map-edited-by-worker", f"socket map mutated off the I/O thread: {bad[:3]}"))
        # the faulted connection
        if sockA.reset is not None or sockA.eof and not sockA.inq:
            if not sockA.closed and any(getattr(o, "socket", None) is sockA for o in m.values()):
                v.append(("dead-connection-not-torn-down", f"connection A is dead (reset={sockA.reset}, eof={sockA.eof}) but still registered at quiescence"))
        if sockA.closed:
            if sockA.fd in m or sockA.fd in srv.active_channels:
                v.append(("closed-but-registered", "connection A closed but still in the socket map / active_channels"))
        if ctx["accepted"]:
            v.append(("output-accepted-after-teardown", f"write_soon() accepted {sum(ctx['accepted'])} bytes of application output for a connection that was already torn down (no ClientDisconnected)"))
        if ctx["app"].active != 0 and not any(t.state == "blocked" and t.bkind == "cv" for t in S.threads if t.name.startswith("waitress-")):
            pass
        for lvl, msg in W.log:
            if lvl in ("ERROR", "CRITICAL") and "uncaptured python exception" in msg:
                first = msg.strip().splitlines()[0]
                who = "listener" if "TcpWSGIServer" in first else ("trigger" if "trigger" in first else "channel")
                exc = first.split("(<class '")[-1].split("'")[0] if "(<class '" in first else "?"
                v.append((f"uncaptured-exception:{who}:{exc}", f"an exception reached wasyncore's last-resort handler: {first[:200]}"))
                break
        return v

    def outcome(self, ctx, S, W):
        return (len(ctx["sockA"].out), ctx["sockA"].closed, len(ctx["sockB"].out), ctx["listener"].closed, S.nfaults)


def scenarios(tier):
    q = tier == "quick"
    R = c04.req
    S = []
    get = R(1).decode("latin-1")
    big = c04.req(1).replace(b"/r1", b"/big").decode("latin-1")
    exp = (R(1) + R(2, "POST", extra=["Expect: 100-continue", "Content-Length: 5"])).decode("latin-1")
    k = 1 if q else 2
    S.append(("A:get", dict(a_pre=get, max_faults=1), k))
    S.append(("A:big-response,window", dict(a_pre=big, a_window=40, a_events=["drain"], max_faults=1, sites=["recv", "send"]), k))
    S.append(("A:pipeline+expect", dict(a_pre=exp, a_events=["body:hello"], max_faults=1, sites=["recv", "send"]), k))
    # the response in front of the expecting request is still being flushed by the I/O thread when the worker,
    # in the tail of service(), sends the interim response: both paths take the two channel locks
    S.append(("A:pipeline+expect,window", dict(a_pre=exp, a_window=40, a_events=["drain", "body:hello"], max_faults=1, sites=["send"], menu=[104, 22]), 1 if q else 2))  # the lock-order inversion between teardown and the interim response needs the fault and one pre-emption (thorough)
    S.append(("A:big-response,watermark,window", dict(a_pre=big, a_window=40, a_events=["drain"], max_faults=1, sites=["send"], adj=dict(outbuf_high_watermark=20)), k))
    S.append(("A:big-response,watermark,client-reset", dict(a_pre=big, a_window=40, a_events=["reset"], max_faults=0, adj=dict(outbuf_high_watermark=20)), k))
    S.append(("A:get,log_socket_errors=off", dict(a_pre=get, max_faults=1, adj=dict(log_socket_errors=False)), k))
    S.append(("A:get,client-eof", dict(a_pre=get, a_events=["eof"], max_faults=0), k))
    S.append(("A:big,client-reset", dict(a_pre=big, a_window=40, a_events=["reset"], max_faults=0), k))
    S.append(("A:get,poll2", dict(a_pre=get, max_faults=1, poll2=True, sites=["recv", "send", "accept", "getsockopt"]), k))
    S.append(("A:big,poll2,client-reset", dict(a_pre=big, a_window=40, a_events=["reset"], max_faults=0, poll2=True), k))
    if not q:
        S.append(("A:get,two-faults", dict(a_pre=get, max_faults=2), 2))
        S.append(("A:pipeline+expect,lookahead", dict(a_pre=exp, a_events=["body:hello"], max_faults=1, sites=["recv", "send"], lookahead=1), 2))
    return S


def main(tier, only=None):
    run = Run("C13", tier)
    run.cov["rule"] = c04.RULE + "; an injected errno on a socket call costs 1; disconnect-class errnos are sticky (the socket stays dead)"
    run.assume(*c04.ASSUME)
    run.assume("an accepted socket whose set-up fails is released by reference counting (not observable here)")
    for name, params, bound in scenarios(tier):
        if only and only not in name:
            continue
        explore.explore(Faults(**params), bound, run, part=name, prefix_keys=False)
    return run.finish()


def replay(rep):
    r = explore.replay(rep)
    return 1 if r.viol else 0
