"""C20  Configuration is validated, and CLI and keyword forms are equivalent.

E5: all subsets of the mutually exclusive option groups x proxy-trust option
combinations against a reference exclusion table; every adjustment with values
of its type against a reference cast; both CLI spellings against the keyword
form; socket lists over {inet stream, unix stream, inet dgram, non-socket};
and the option names of docs/arguments.rst, docs/runner.rst and the runner
help text against the implemented table.
"""
import itertools
import os
import re
import socket
import warnings

from .. import common
from ..evidence import Run

TRUTHY = {"t", "true", "y", "yes", "on", "1"}
KNOWN_KINDS = {"forwarded", "x-forwarded-for", "x-forwarded-host", "x-forwarded-proto", "x-forwarded-port", "x-forwarded-by"}


# ---------------------------------------------------------------------------
# reference casts (written from docs/arguments.rst, not from adjustments.py)
# ---------------------------------------------------------------------------
def ref_bool(v):
    if v is None:
        return False
    if isinstance(v, bool):
        return v
    return str(v).strip().lower() in TRUTHY


def ref_list(v):
    if isinstance(v, str):
        out = []
        for line in v.splitlines():
            out += line.split()
        return out
    out = []
    for x in v:
        out += x.split()
    return out


def ref_prefix(s):
    s = s.strip()
    if s:
        s = "/" + s.strip("/") if s.strip("/") else "/"
        s = "/" + s.lstrip("/").rstrip("/")
    return s


REF_CAST = {
    "host": str, "port": int, "ipv4": ref_bool, "ipv6": ref_bool, "threads": int,
    "trusted_proxy": lambda s: str(s) if s else None, "trusted_proxy_count": int, "trusted_proxy_headers": lambda v: set(ref_list(v)),
    "log_untrusted_proxy_headers": ref_bool, "clear_untrusted_proxy_headers": ref_bool, "url_scheme": str, "url_prefix": ref_prefix,
    "backlog": int, "recv_bytes": int, "send_bytes": int, "outbuf_overflow": int, "outbuf_high_watermark": int, "inbuf_overflow": int,
    "connection_limit": int, "cleanup_interval": int, "channel_timeout": int, "log_socket_errors": ref_bool, "max_request_header_size": int,
    "max_request_body_size": int, "expose_tracebacks": ref_bool, "ident": lambda s: str(s) if s else None, "asyncore_loop_timeout": int,
    "asyncore_use_poll": ref_bool, "unix_socket": str, "unix_socket_perms": lambda s: int(s, 8), "channel_request_lookahead": int, "server_name": str,
}
VALUES = {
    "bool": ["t", "T", "true", "True", "TRUE", "y", "Y", "yes", "YES", "on", "ON", "1", " true ", "f", "false", "no", "off", "0", "", "2", "tru", "enabled", True, False, None],
    "int": ["0", "1", "8080", " 12 ", 7, "007"],
    "badint": ["x", "", "1.5", "0x10"],
    "str": ["a", "", " b ", "127.0.0.1"],
    "octal": ["600", "0600", "777", "0"],
    "badoctal": ["8", "x"],
    "prefix": ["", "/", "a", "/a", "a/", "//a//", " /a/b/ ", "/a/b"],
    "tph": ["x-forwarded-for", "X-Forwarded-For x-forwarded-host", "x-forwarded-for\nx-forwarded-proto", ["x-forwarded-by"], "forwarded", " forwarded "],
}


def kind_of(name):
    c = REF_CAST[name]
    if c is ref_bool:
        return "bool"
    if c is int:
        return "int"
    if name == "unix_socket_perms":
        return "octal"
    if name == "url_prefix":
        return "prefix"
    if name == "trusted_proxy_headers":
        return "tph"
    return "str"


# ---------------------------------------------------------------------------
# reference exclusion table
# ---------------------------------------------------------------------------
def must_refuse(kw):
    k = set(kw)
    if "listen" in k and (k & {"host", "port", "sockets", "unix_socket"}):
        return "listen with host/port/sockets/unix_socket"
    if "sockets" in k and (k & {"host", "port", "unix_socket"}):
        return "sockets with host/port/unix_socket"
    if "unix_socket" in k and (k & {"host", "port"}):
        return "unix_socket with host/port"
    tp = kw.get("trusted_proxy")
    tp = str(tp) if tp else None
    if kw.get("trusted_proxy_count") is not None and "trusted_proxy_count" in kw and tp is None:
        return "trusted_proxy_count without trusted_proxy"
    tph = kw.get("trusted_proxy_headers")
    if tph is not None:
        kinds = {x.lower() for x in ref_list(tph)}
        if kinds and tp is None:
            return "trusted_proxy_headers without trusted_proxy"
        if kinds - KNOWN_KINDS:
            return "unknown header kind"
        if "forwarded" in kinds and len(kinds) > 1:
            return "Forwarded mixed with X-Forwarded-*"
    return None


def make(Adjustments, kw):
    with warnings.catch_warnings():
        warnings.simplefilter("ignore")
        try:
            return Adjustments(**kw), None
        except ValueError as e:
            return None, e


def server_application(run, tier):
    """create_server() really applies the settings: worker threads started, one listening socket per
    listen entry (bound where asked, backlog as configured), unix socket permissions.  Real loopback /
    unix sockets are bound (port 0, scratch directory); worker threads are recorded, not started."""
    import shutil
    import stat
    import tempfile

    import waitress.server as ws
    import waitress.task as wt
    import waitress.wasyncore as wc

    n = 0
    classes = set()
    started = []
    listens = []

    class Disp(wt.ThreadedTaskDispatcher):
        def start_new_thread(self, target, thread_no):
            started.append(thread_no)

    class RecSock(socket.socket):
        def listen(self, backlog=None):
            listens.append(backlog)
            return super().listen(backlog)

    class Shim:
        socket = RecSock

        def __getattr__(self, name):
            return getattr(socket, name)

    def app(environ, start_response):  # pragma: no cover
        start_response("200 OK", [])
        return []

    try:
        probe = socket.socket(socket.AF_INET, socket.SOCK_STREAM)
        probe.bind(("127.0.0.1", 0))
        probe.close()
    except OSError as e:
        run.assume(f"loopback cannot be bound here ({e}): the create_server application sub-check was skipped")
        return 0, classes
    real_disp, real_sockmod = ws.ThreadedTaskDispatcher, wc.socket
    ws.ThreadedTaskDispatcher, wc.socket = Disp, Shim()
    tmp = tempfile.mkdtemp(prefix="c20-")
    try:
        cases = []
        for threads in (1, 3, 6):
            for nl in (1, 2, 3):
                for backlog in (5, 1024):
                    cases.append(dict(threads=threads, backlog=backlog, listen=" ".join(["127.0.0.1:0"] * nl)))
        for perms in ("600", "660", "644"):
            cases.append(dict(threads=2, unix_socket=os.path.join(tmp, f"s{perms}.sock"), unix_socket_perms=perms))
        for nl in (1, 2):
            for use_poll in (False, True):
                for lt in (1, 7):
                    cases.append(dict(threads=1, backlog=5, listen=" ".join(["127.0.0.1:0"] * nl), asyncore_use_poll=use_poll, asyncore_loop_timeout=lt))
        for kw in cases:
            n += 1
            del started[:], listens[:]
            m = {}
            srv = None
            try:
                srv = ws.create_server(app, map=m, **kw)
                lst = [o for o in m.values() if isinstance(o, ws.BaseWSGIServer)]
                classes.add(("server", kw["threads"], len(lst), kw.get("backlog"), kw.get("unix_socket_perms")))
                if sorted(started) != list(range(kw["threads"])):
                    run.violation("server:threads", f"create_server({kw}) started workers {sorted(started)}, expected {kw['threads']}", {"kw": kw})
                if "listen" in kw:
                    want = len(kw["listen"].split())
                    if len(lst) != want or not all(o.accepting for o in lst):
                        run.violation("server:listen", f"create_server({kw}): {len(lst)} listening sockets in the map, expected {want}", {"kw": kw})
                    if any(o.socket.getsockname()[0] != "127.0.0.1" for o in lst):
                        run.violation("server:listen-address", f"create_server({kw}): bound to {[o.socket.getsockname() for o in lst]}", {"kw": kw})
                    if listens != [kw["backlog"]] * want:
                        run.violation("server:backlog", f"create_server({kw}): listen() called with {listens}", {"kw": kw})
                    # run(): the loop must be entered with the configured poll flavour, timeout and map
                    loops = []

                    class Rec:
                        @staticmethod
                        def loop(*a, **k):
                            loops.append((a, k))

                    srv.asyncore = Rec
                    srv.run()
                    want_loop = dict(timeout=kw.get("asyncore_loop_timeout", 1), use_poll=kw.get("asyncore_use_poll", False))
                    if len(loops) != 1 or loops[0][0] or {k: loops[0][1].get(k) for k in want_loop} != want_loop or loops[0][1].get("map") is not m:
                        got = [{k: v for k, v in l[1].items() if k != "map"} for l in loops]
                        run.violation("server:loop-arguments", f"create_server({kw}).run() entered the loop with {got}, expected {want_loop} and the server's map", {"kw": kw})
                else:
                    mode = stat.S_IMODE(os.stat(kw["unix_socket"]).st_mode)
                    if mode != int(kw["unix_socket_perms"], 8):
                        run.violation("server:unix-perms", f"create_server({kw}): socket file mode {oct(mode)}", {"kw": {k: str(v) for k, v in kw.items()}})
            except Exception as e:  # noqa
                run.violation("server:exception", f"create_server({kw}) raised {type(e).__name__}: {e}", {"kw": {k: str(v) for k, v in kw.items()}})
            finally:
                for o in list(m.values()):
                    try:
                        o.close()
                    except Exception:
                        pass
    finally:
        ws.ThreadedTaskDispatcher, wc.socket = real_disp, real_sockmod
        shutil.rmtree(tmp, ignore_errors=True)
    return n, classes


def main(tier, only=None):
    from waitress.adjustments import Adjustments
    import waitress.runner

    run = Run("C20", tier)
    run.cov["rule"] = (
        "all 32 subsets of {listen, host, port, sockets, unix_socket} x proxy-trust option combinations vs a reference exclusion table; every _params entry x values of its type vs a reference cast; "
        "--x / --no-x / --x=v / repeated --listen vs the keyword form, attribute by attribute; socket lists up to length 3 over 4 kinds; option names in the three documents vs _params; "
        "default of every adjustment vs the value documented in docs/arguments.rst; create_server() with threads x listen entries x backlog and unix_socket_perms: workers started, sockets bound and listening as configured; "
        "distinct_nontrivial = distinct (option set, verdict) + (option, value, result) classes"
    )
    run.assume("getaddrinfo is only called with numeric hosts (hermetic)", "docs are compared by option name, not by prose")
    n = 0
    classes = set()
    params = [p for p, _ in Adjustments._params]

    # -- 1. exclusion groups x proxy options --------------------------------
    s_inet = socket.socket(socket.AF_INET, socket.SOCK_STREAM)
    addr_opts = {"listen": "127.0.0.1:8081", "host": "127.0.0.1", "port": "8082", "sockets": [s_inet], "unix_socket": "/nonexistent/verif.sock"}
    proxy_opts = []
    for tp in (None, "10.0.0.1", "*", ""):
        for cnt in (None, 1, "2", 0, "0"):
            for tph in (None, [], "", ["forwarded"], ["x-forwarded-for"], "x-forwarded-for x-forwarded-host", ["forwarded", "x-forwarded-for"], ["bogus"], ["X-Forwarded-Proto"], "Forwarded",
                        ["Forwarded", "X-Forwarded-For"], "FORWARDED x-forwarded-host", ["x-forwarded-by", "forwardeD"], ["Bogus"]):
                for clear in (None, True, "false"):
                    d = {}
                    if tp is not None:
                        d["trusted_proxy"] = tp
                    if cnt is not None:
                        d["trusted_proxy_count"] = cnt
                    if tph is not None:
                        d["trusted_proxy_headers"] = tph
                    if clear is not None:
                        d["clear_untrusted_proxy_headers"] = clear
                    proxy_opts.append(d)
    try:
        for r in range(0, 6):
            for combo in itertools.combinations(addr_opts, r):
                base = {k: addr_opts[k] for k in combo}
                for po in (proxy_opts if r <= 1 or tier == "thorough" else proxy_opts[::7]):
                    kw = dict(base)
                    kw.update(po)
                    n += 1
                    why = must_refuse(kw)
                    adj, err = make(Adjustments, kw)
                    classes.add((tuple(sorted(kw)), why, err is None))
                    rep = {k: (v if not isinstance(v, list) or k != "sockets" else "[inet-stream]") for k, v in kw.items()}
                    if why and err is None:
                        run.violation(f"not-refused:{why}", f"Adjustments({rep}) accepted although {why}", {"kw": rep})
                    elif not why and err is not None:
                        run.violation("refused-valid", f"Adjustments({rep}) refused: {err}", {"kw": rep})
                    elif adj is not None:
                        # applied exactly as documented
                        tp = kw.get("trusted_proxy")
                        if adj.trusted_proxy != (str(tp) if tp else None):
                            run.violation("applied:trusted_proxy", f"{rep}: trusted_proxy={adj.trusted_proxy!r}", {"kw": rep})
                        want_cnt = int(kw["trusted_proxy_count"]) if "trusted_proxy_count" in kw else 1
                        if adj.trusted_proxy_count != want_cnt:
                            run.violation("applied:trusted_proxy_count", f"{rep}: trusted_proxy_count={adj.trusted_proxy_count!r}", {"kw": rep})
                        kinds = {x.lower() for x in ref_list(kw.get("trusted_proxy_headers") or [])}
                        want_tph = kinds or ({"x-forwarded-proto"} if adj.trusted_proxy is not None else set())
                        if set(adj.trusted_proxy_headers) != want_tph:
                            run.violation("applied:trusted_proxy_headers", f"{rep}: trusted_proxy_headers={adj.trusted_proxy_headers!r}, expected {want_tph}", {"kw": rep})
                        if "clear_untrusted_proxy_headers" in kw and adj.clear_untrusted_proxy_headers != ref_bool(kw["clear_untrusted_proxy_headers"]):
                            run.violation("applied:clear", f"{rep}", {"kw": rep})
        # unknown names
        for name in ("bogus", "Host", "hosts", "listen ", "trusted-proxy", "", "threads_",
                     # names that exist as attributes of the class without being adjustments
                     "socket_options", "parse_args", "_param_map", "_params", "check_sockets", "__init__", "__dict__"):
            n += 1
            adj, err = make(Adjustments, {name: "1"})
            if err is None:
                run.violation("unknown-name-accepted", f"unknown adjustment {name!r} accepted", {"kw": {name: "1"}})
    finally:
        s_inet.close()

    # -- 2. every adjustment with values of its type --------------------------
    for name in params:
        if name in ("listen", "sockets"):
            continue
        if name not in REF_CAST:
            run.violation("undocumented-parameter", f"_params has {name!r}, which the reference table (from docs/arguments.rst) does not know", {"param": name})
            continue
        kind = kind_of(name)
        vals = list(VALUES[kind])
        if kind == "int":
            vals += VALUES["badint"]
        if kind == "octal":
            vals += VALUES["badoctal"]
        for val in vals:
            kw = {name: val}
            if name in ("trusted_proxy_count", "trusted_proxy_headers"):
                kw["trusted_proxy"] = "10.0.0.1"
            if name in ("ipv4", "ipv6"):
                kw["listen"] = "*:8080"  # a wildcard can be bound whichever family is left
            n += 1
            try:
                want = REF_CAST[name](val)
                bad = False
            except (ValueError, TypeError, AttributeError):
                bad = True
            if name == "port" and not bad:
                pass
            try:
                with warnings.catch_warnings():
                    warnings.simplefilter("ignore")
                    adj = Adjustments(**kw)
                got_err = None
            except Exception as e:
                adj, got_err = None, e
            classes.add((name, repr(val)[:20], got_err is None))
            rep = {k: repr(v) for k, v in kw.items()}
            if bad:
                if got_err is None:
                    run.violation(f"bad-value-accepted:{name}", f"{name}={val!r} accepted as {getattr(adj, name)!r}", {"kw": rep})
                continue
            if name in ("host", "port") and got_err is not None:
                continue  # value not resolvable as an address: refusal is fine
            if got_err is not None:
                run.violation(f"value-refused:{name}", f"{name}={val!r} refused: {got_err!r}", {"kw": rep})
                continue
            got = getattr(adj, name)
            if name == "trusted_proxy_headers":
                want = {x.lower() for x in want}
            if got != want or isinstance(got, bool) != isinstance(want, bool):
                run.violation(f"cast:{name}", f"{name}={val!r} applied as {got!r}, documented cast gives {want!r}", {"kw": rep})

    # -- 3. CLI vs keyword ---------------------------------------------------
    APP = "wsgiref.simple_server:demo_app"

    def attrs(a):
        return {p: getattr(a, p) for p in params if p != "sockets"}

    def cli_adj(argv):
        kw = Adjustments.parse_args(argv + [APP])
        for k in ("help", "app"):
            kw.pop(k, None)
        with warnings.catch_warnings():
            warnings.simplefilter("ignore")
            return Adjustments(**kw)

    for name in params:
        if name == "sockets":
            continue
        opt = "--" + name.replace("_", "-")
        kind = kind_of(name) if name in REF_CAST else "list"
        pre_kw = {"trusted_proxy": "10.0.0.1"} if name in ("trusted_proxy_count", "trusted_proxy_headers") else {}
        pre_cli = ["--trusted-proxy=10.0.0.1"] if pre_kw else []
        if name in ("ipv4", "ipv6"):
            pre_kw, pre_cli = {"listen": "*:8080"}, ["--listen=*:8080"]
        trials = []
        if kind == "bool":
            trials += [([opt], {name: True}), (["--no-" + name.replace("_", "-")], {name: False}), ([opt, "--no-" + name.replace("_", "-")], {name: False}), (["--no-" + name.replace("_", "-"), opt], {name: True})]
        elif name == "listen":
            trials += [([opt + "=127.0.0.1:8081"], {name: "127.0.0.1:8081"}), ([opt, "127.0.0.1:8081"], {name: "127.0.0.1:8081"}),
                       ([opt + "=127.0.0.1:8081", opt + "=127.0.0.1:8082"], {name: "127.0.0.1:8081 127.0.0.1:8082"}), ([opt + "=*:8083"], {name: "*:8083"})]
        else:
            samples = {"int": ["3", "17"], "str": ["abc", "127.0.0.1"], "octal": ["640"], "prefix": ["/x/", "y"], "tph": ["x-forwarded-for", "x-forwarded-for x-forwarded-host"]}[kind]
            if name == "host":
                samples = ["127.0.0.1"]
            if name == "port":
                samples = ["8085"]
            if name == "unix_socket":
                samples = ["/nonexistent/x.sock"]
            for sv in samples:
                trials += [([opt + "=" + sv], {name: sv}), ([opt, sv], {name: sv})]
            if kind in ("str", "prefix") and name not in ("host", "unix_socket"):
                # an explicitly empty value
                trials += [([opt + "="], {name: ""}), ([opt, ""], {name: ""})]
        for argv, kw in trials:
            n += 1
            try:
                a = cli_adj(pre_cli + argv)
            except Exception as e:
                run.violation(f"cli-refused:{name}", f"{argv} refused: {e!r}", {"argv": argv})
                continue
            kw2 = dict(pre_kw)
            kw2.update(kw)
            b, err = make(Adjustments, kw2)
            if err is not None:
                run.violation(f"kw-refused:{name}", f"{kw2} refused: {err!r} but CLI form {argv} accepted", {"argv": argv})
                continue
            da, db = attrs(a), attrs(b)
            classes.add((name, tuple(argv), "cli"))
            if da != db:
                diff = {k: (da[k], db[k]) for k in da if da[k] != db[k]}
                run.violation(f"cli-differs:{name}", f"CLI {argv} and keyword {kw2} give different settings: {diff}", {"argv": argv})
    # unknown CLI option
    n += 1
    try:
        Adjustments.parse_args(["--bogus=1", APP])
        run.violation("cli-unknown-accepted", "--bogus accepted", {"argv": ["--bogus=1"]})
    except Exception:
        pass

    # -- 4. socket lists ------------------------------------------------------
    kinds = {
        "inet": lambda: socket.socket(socket.AF_INET, socket.SOCK_STREAM),
        "inet6": lambda: socket.socket(socket.AF_INET6, socket.SOCK_STREAM),
        "unix": lambda: socket.socket(socket.AF_UNIX, socket.SOCK_STREAM),
        "dgram": lambda: socket.socket(socket.AF_INET, socket.SOCK_DGRAM),
        "seqpacket": lambda: socket.socket(socket.AF_UNIX, socket.SOCK_SEQPACKET),
        "unix-dgram": lambda: socket.socket(socket.AF_UNIX, socket.SOCK_DGRAM),
        "nonsock": lambda: "not-a-socket",
    }
    for L in range(0, 4 if tier == "thorough" else 3):
        for combo in itertools.product(kinds, repeat=L):
            objs = [kinds[k]() for k in combo]
            try:
                n += 1
                real = [k for k in combo if k != "nonsock"]
                want_err = any(k in real for k in ("dgram", "seqpacket", "unix-dgram")) or (("inet" in real or "inet6" in real) and "unix" in real)
                adj, err = make(Adjustments, {"sockets": objs})
                classes.add(("sockets", tuple(combo), err is None))
                if want_err and err is None:
                    run.violation("sockets:not-refused", f"socket list {combo} accepted", {"sockets": list(combo)})
                if not want_err and err is not None:
                    run.violation("sockets:refused-valid", f"socket list {combo} refused: {err}", {"sockets": list(combo)})
                if adj is not None and len(adj.sockets) != len(real):
                    run.violation("sockets:filter", f"socket list {combo}: {len(adj.sockets)} kept", {"sockets": list(combo)})
            finally:
                for o in objs:
                    if hasattr(o, "close"):
                        o.close()

    # -- 5. documented option list vs implemented one -------------------------
    docs = os.path.join(common.REPO, "docs")
    impl = set(params)
    try:
        text = open(os.path.join(docs, "arguments.rst")).read()
        doc_args = set(re.findall(r"^([a-z][a-z0-9_]+)\n {3,}\S", text, re.M))
        n += 1
        for name in sorted(impl - doc_args):
            run.violation("docs:arguments.rst-missing", f"adjustment {name!r} is not documented in docs/arguments.rst", {"param": name})
        for name in sorted(doc_args - impl):
            run.violation("docs:arguments.rst-extra", f"docs/arguments.rst documents {name!r}, which is not an adjustment", {"param": name})
    except FileNotFoundError:
        run.violation("docs:arguments.rst-absent", "docs/arguments.rst not found", {})
    cli_impl = set()
    for p, cast in Adjustments._params:
        o = p.replace("_", "-")
        cli_impl.add("--" + o)
        if cast.__name__ == "asbool":
            cli_impl.add("--no-" + o)
    helptext = waitress.runner.HELP if hasattr(waitress.runner, "HELP") else (waitress.runner.__doc__ or "")
    try:
        runner_rst = open(os.path.join(docs, "runner.rst")).read()
    except FileNotFoundError:
        runner_rst = ""
    for label, text in (("runner-help", helptext), ("docs/runner.rst", runner_rst)):
        n += 1
        found = set()
        for neg, name in re.findall(r"--(\[no-\])?([a-z][a-z0-9-]*[a-z0-9])", text):
            found.add(name)
        found -= {"help", "call", "app"}
        names_impl = {p.replace("_", "-") for p in params} | {"no-" + p.replace("_", "-") for p, c in Adjustments._params if c.__name__ == "asbool"}
        for o in sorted(found - names_impl):
            run.violation(f"docs:{label}-extra", f"{label} mentions --{o}, which the command line does not accept", {"option": o})
        for p in params:
            if p == "sockets":
                continue
            o = p.replace("_", "-")
            if o not in found:
                run.violation(f"docs:{label}-missing", f"{label} does not mention --{o}", {"option": o})
    # -- 8. host / port / listen resolve to the documented listening addresses ---
    def addrs(a):
        return sorted((fam, sa[0], sa[1]) for fam, _, _, sa in a.listen)

    for host in (None, "127.0.0.1", "0.0.0.0"):
        for port in (None, 9001, "9002"):
            kw = {}
            if host is not None:
                kw["host"] = host
            if port is not None:
                kw["port"] = port
            n += 1
            adj, err = make(Adjustments, kw)
            want = [(socket.AF_INET, host or "0.0.0.0", int(port or 8080))]
            classes.add(("listen", host, str(port), err is None))
            if err is not None or addrs(adj) != want:
                run.violation("applied:listen", f"Adjustments({kw}) listens on {addrs(adj) if adj else err!r}, documented: {want}", {"kw": {k: str(v) for k, v in kw.items()}})
    for spec, want in (
        ("127.0.0.1:9003", [(socket.AF_INET, "127.0.0.1", 9003)]),
        ("127.0.0.1:9003 127.0.0.1:9004", [(socket.AF_INET, "127.0.0.1", 9003), (socket.AF_INET, "127.0.0.1", 9004)]),
        ("127.0.0.1:9003 127.0.0.1:9003", [(socket.AF_INET, "127.0.0.1", 9003)]),
        ("127.0.0.1", [(socket.AF_INET, "127.0.0.1", 8080)]),
        ("127.0.0.1:9003 127.0.0.2", [(socket.AF_INET, "127.0.0.1", 9003), (socket.AF_INET, "127.0.0.2", 8080)]),
        ("127.0.0.2 127.0.0.1:9003 127.0.0.3", [(socket.AF_INET, "127.0.0.1", 9003), (socket.AF_INET, "127.0.0.2", 8080), (socket.AF_INET, "127.0.0.3", 8080)]),
        ("0.0.0.0:9005", [(socket.AF_INET, "0.0.0.0", 9005)]),
    ):
        for form in ("str", "list"):
            n += 1
            kw = {"listen": spec if form == "str" else spec.split()}
            adj, err = make(Adjustments, kw)
            classes.add(("listen-spec", spec, form, err is None))
            if err is not None or addrs(adj) != want:
                run.violation("applied:listen", f"Adjustments({kw}) listens on {addrs(adj) if adj else err!r}, documented: {want}", {"kw": {"listen": spec}})
    for v4, v6 in ((True, True), (True, False), (False, True)):
        n += 1
        kw = {"listen": "*:9006", "ipv4": v4, "ipv6": v6}
        adj, err = make(Adjustments, kw)
        allowed = ({socket.AF_INET} if v4 else set()) | ({socket.AF_INET6} if v6 else set())
        classes.add(("listen-families", v4, v6, err is None))
        if err is None:
            fams = {f for f, _, _ in addrs(adj)}
            if not fams or not fams <= allowed or any(p != 9006 for _, _, p in addrs(adj)):
                run.violation("applied:listen-families", f"Adjustments({kw}) listens on {addrs(adj)}", {"kw": {k: str(v) for k, v in kw.items()}})
        elif v4:
            run.violation("applied:listen-families", f"Adjustments({kw}) refused: {err}", {"kw": {k: str(v) for k, v in kw.items()}})

    # -- 7. documented defaults ------------------------------------------------
    try:
        text = open(os.path.join(docs, "arguments.rst")).read()
        adj0 = Adjustments()
        for block in re.split(r"^(?=[a-z][a-z0-9_]+\n {3,}\S)", text, flags=re.M):
            m = re.match(r"([a-z][a-z0-9_]+)\n", block)
            if not m or m.group(1) not in impl:
                continue
            name = m.group(1)
            d = re.findall(r"Default: ``([^`]*)``", block) or re.findall(r"default ``([^`]*)``", block)
            if not d:
                continue
            n += 1
            doc = d[0]
            got = getattr(adj0, name)
            if doc == "None":
                want = None
            elif doc in ("True", "False"):
                want = doc == "True"
            elif doc == "[]":
                want = []
            elif name == "unix_socket_perms":
                want = int(doc.strip("'"), 8)
            elif re.fullmatch(r"\d+", doc):
                want = int(doc)
            else:
                want = doc.strip("'")
            classes.add(("default", name, repr(got)))
            if got != want or isinstance(got, bool) != isinstance(want, bool):
                run.violation(f"default:{name}", f"docs/arguments.rst gives the default of {name} as {doc!r}; Adjustments() has {got!r}", {"param": name})
    except FileNotFoundError:
        pass

    # -- 6. create_server applies the settings -----------------------------------
    n6, cl6 = server_application(run, tier)
    n += n6
    classes |= cl6
    run.add(states=len(classes), transitions=n, traces_validated_against_impl=n, evaluations=n, distinct_nontrivial=len(classes))
    run.part("cases", total=n, create_server_cases=n6)
    run.sample({"kw": {"listen": "127.0.0.1:8081", "host": "127.0.0.1"}, "expected": "ValueError"})
    run.sample({"argv": ["--no-ipv6"], "kw": {"ipv6": False}})
    return run.finish()


def replay(rep):
    return main("quick")
