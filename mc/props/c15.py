"""C15  Untrusted peers cannot influence connection metadata.

E5, relational: for every configuration in which the peer is not the trusted
proxy (or none is configured) and every assignment of values to the six proxy
headers, the environ seen by the application equals the environ of the same
request with those headers deleted (except for the proxy headers themselves,
which must be absent when clear_untrusted_proxy_headers is on).
"""
import itertools
import multiprocessing as mp
import random

from .. import common, seq
from ..evidence import Run

PROXY = ["Forwarded", "X-Forwarded-For", "X-Forwarded-Host", "X-Forwarded-Proto", "X-Forwarded-Port", "X-Forwarded-By"]
VALUES = {  # first three of each are used by the quick tier: well-formed, empty, malformed
    "Forwarded": ["for=6.6.6.6;host=evil.example:444;proto=https;by=9.9.9.9", "", "for=:80", 'for="[::1]:99", for=7.7.7.7', "garbage;=;", "host=", 'for="unterminated', " "],
    "X-Forwarded-For": ["6.6.6.6", "", '"q', "6.6.6.6, 7.7.7.7", "[::1]", ":80", "::1", " "],
    "X-Forwarded-Host": ["evil.example:99", "", '"x', "evil.example", ",", ":5"],
    "X-Forwarded-Proto": ["https", "", "http, https", "ftp", '"'],
    "X-Forwarded-Port": ["444", "", "1, 2", "x"],
    "X-Forwarded-By": ["9.9.9.9", "", '"'],
}
PEER = ("10.1.2.3", 4567)
XF = ["x-forwarded-for", "x-forwarded-host", "x-forwarded-proto", "x-forwarded-port", "x-forwarded-by"]


def configs(tier):
    out = []
    for clear in (True, False):
        out.append(dict(clear_untrusted_proxy_headers=clear))
        for tp in ("10.0.0.1", "10.1.2.33", "10.1.2", "0.1.2.3", "10.1.2.3 ", "localhost"):
            for tph in ([], ["forwarded"], ["x-forwarded-for"], ["x-forwarded-proto", "x-forwarded-host"], XF):
                counts = (1, 2, 3) if (tier == "thorough" or tp == "10.0.0.1") else (1,)
                for cnt in counts:
                    if tp != "10.0.0.1" and tier == "quick" and len(tph) not in (1, 5):
                        continue
                    kw = dict(trusted_proxy=tp, trusted_proxy_count=cnt, clear_untrusted_proxy_headers=clear)
                    if tph:
                        kw["trusted_proxy_headers"] = tph
                    out.append(kw)
        # the logging switch must not change what is cleared
        out.append(dict(clear_untrusted_proxy_headers=clear, log_untrusted_proxy_headers=True))
        out.append(dict(trusted_proxy="10.0.0.1", trusted_proxy_count=1, trusted_proxy_headers=["x-forwarded-for"], clear_untrusted_proxy_headers=clear, log_untrusted_proxy_headers=True))
        out.append(dict(trusted_proxy="10.0.0.1", trusted_proxy_count=1, trusted_proxy_headers=["forwarded"], clear_untrusted_proxy_headers=clear, log_untrusted_proxy_headers=True))
        # scoped (link-local) IPv6 addresses: the zone index is part of the peer's identity
        for tp, peer in (("fe80::1%eth0", "fe80::1%eth1"), ("fe80::1%eth0", "fe80::2%eth0"), ("fe80::1", "fe80::1:0"), ("2001:db8::1", "2001:db8::10")):
            for tph in (["forwarded"], XF):
                out.append(dict(trusted_proxy=tp, trusted_proxy_count=1, clear_untrusted_proxy_headers=clear, trusted_proxy_headers=tph, _peer=peer))
    return out


_envs = {}


def get_env(ci, kw):
    e = _envs.get(ci)
    if e is None:
        e = seq.Env(None, **{k: v for k, v in kw.items() if not k.startswith("_")})
        e.peer = (kw["_peer"], 4567, 0, 0) if "_peer" in kw else PEER
        _envs[ci] = e
    return e


def request(headers):
    lines = ["GET /x?y=1 HTTP/1.1", "Host: real.example:8080", "X-Other: keep"]
    for k, v in headers:
        lines.append(f"{k}: {v}")
    return ("\r\n".join(lines) + "\r\n\r\n").encode("latin-1")


def run(env, headers):
    env.activate()
    got = []

    def app(environ, start_response):
        got.append({k: v for k, v in environ.items() if isinstance(v, str)})
        start_response("200 OK", [("Content-Length", "0")])
        return []

    env.app = app
    del env.escaped[:]
    del env.disp.worker_exc[:]
    c = env.connect(peer=env.peer)
    c.send(request(headers))
    wire = c.wire
    esc = list(env.escaped) + [repr(e) for e in env.disp.worker_exc]
    if not c.closed and c.ch is not None:
        c.ch.handle_close()
    return got, wire, esc


def assignments(tier):
    """every subset of the six headers x values"""
    per = []
    for h in PROXY:
        vals = VALUES[h] if tier == "thorough" else VALUES[h][:3]
        per.append([None] + vals)
    # all assignments where at most 3 headers are present, plus every full single-value row
    for combo in itertools.product(*per):
        present = sum(1 for x in combo if x is not None)
        if present == 0:
            continue
        if present <= (3 if tier == "quick" else 4) or all(x is None or x == per[i][1] for i, x in enumerate(combo)):
            yield [(PROXY[i], v) for i, v in enumerate(combo) if v is not None]


def _work(args):
    ci, kw, tier, part, nparts = args
    env = get_env(ci, kw)
    base, bwire, besc = run(env, [])
    out = []
    n = 0
    classes = set()
    if len(base) != 1:
        return 0, classes, [("harness:baseline", f"baseline request not served under {kw}: {bwire[:80]!r}", kw, [])]
    b = base[0]
    proxy_keys = {"HTTP_" + h.upper().replace("-", "_") for h in PROXY}
    for idx, hdrs in enumerate(assignments(tier)):
        if idx % nparts != part:
            continue
        n += 1
        got, wire, esc = run(env, hdrs)
        classes.add((ci, tuple(h for h, _ in hdrs), wire[9:12]))
        for e in esc:
            out.append(("exception", f"{e}", kw, hdrs))
        if len(got) != 1:
            out.append((f"not-served:{wire[9:12].decode()}", f"request from an untrusted peer answered with {wire[:60]!r} instead of reaching the application", kw, hdrs))
            continue
        g = got[0]
        for k in sorted((set(g) | set(b)) - proxy_keys):
            if g.get(k) != b.get(k):
                out.append((f"influenced:{k}", f"environ[{k!r}] = {g.get(k)!r} with the headers, {b.get(k)!r} without", kw, hdrs))
        sent = {"HTTP_" + h.upper().replace("-", "_"): v.strip(" \t") for h, v in hdrs}  # field values are OWS-trimmed
        for k in proxy_keys:
            if kw.get("clear_untrusted_proxy_headers", True):
                if k in g:
                    out.append((f"not-cleared:{k}", f"{k} = {g[k]!r} reached the application although clearing is on", kw, hdrs))
            else:
                if g.get(k) != sent.get(k):
                    out.append((f"proxy-header-altered:{k}", f"{k} = {g.get(k)!r}, sent {sent.get(k)!r} (clearing off, untrusted peer)", kw, hdrs))
    return n, classes, out


def main(tier, only=None):
    r = Run("C15", tier)
    rnd = random.Random(common.SEED)
    cfgs = configs(tier)
    r.cov["rule"] = (
        "every configuration (trusted_proxy None / other address / addresses that are prefixes, extensions or padded variants of the peer; trusted_proxy_headers subsets; count 1..3; clearing on/off) x "
        "every assignment of values (well-formed, malformed, hostile) to subsets of the six proxy headers; two runs per case (with / without the headers), environ compared key by key; "
        "distinct_nontrivial = distinct (config, header subset, status) triples"
    )
    r.assume("peer address 10.1.2.3 (IPv4 configurations) or a link-local / global IPv6 address that differs from the trusted one in zone index or digits; trusted_proxy='*' is excluded by the property", "real parser -> task -> middleware -> application path under the sequential driver")
    nparts = 4
    work = [(ci, kw, tier, p, nparts) for ci, kw in enumerate(cfgs) for p in range(nparts)]
    rnd.shuffle(work)
    ctx = mp.get_context("fork")
    n = 0
    classes = set()
    viol = []
    with ctx.Pool(common.NPROC) as pool:
        for k, cl, out in pool.imap_unordered(_work, work):
            n += k
            classes |= cl
            viol += out
    r.add(states=len(classes), transitions=2 * n, traces_validated_against_impl=2 * n, evaluations=n, distinct_nontrivial=len(classes))
    r.part("pairs", total=n, configurations=len(cfgs))
    r.sample({"config": cfgs[1], "headers": next(iter(assignments(tier)))})
    seen = {}
    for key, what, kw, hdrs in viol:
        seen.setdefault(key, []).append((what, kw, hdrs))
    for k, lst in sorted(seen.items()):
        lst.sort(key=lambda x: len(repr(x[2])))
        what, kw, hdrs = lst[0]
        r.violation(k, f"{what} | config={kw} headers={hdrs} [{len(lst)} cases]", {"config": kw, "headers": hdrs})
    return r.finish()


def replay(rep):
    env = get_env(0, rep["config"])
    base, _, _ = run(env, [])
    got, wire, esc = run(env, [tuple(h) for h in rep["headers"]])
    print("without:", base)
    print("with   :", got, wire[:60], esc)
    return 1 if got != base else 0
