"""Sequential driver (one fixed schedule): the real server, channel, parser,
tasks and the real wasyncore.poll() loop over the virtual environment, with a
synchronous dispatcher that runs each task as soon as the loop turn that queued
it returns.  Schedules are E1's business; this driver is for input / program /
history enumeration.

Also provides snapshot/restore of a connection (exact concrete state) for
explicit-state search.
"""
import io
import pickle
from collections import deque

from . import sched, venv


class SyncDispatcher:
    def __init__(self):
        self.queue = deque()
        self.worker_exc = []  # exceptions that reached the worker loop
        self.threads = set()

    def add_task(self, task):
        self.queue.append(task)

    def set_thread_count(self, n):
        pass

    def shutdown(self, cancel_pending=True, timeout=5):
        return True

    def run_all(self, env, limit=None):
        n = 0
        while self.queue and (limit is None or n < limit):
            task = self.queue.popleft()
            n += 1
            env.S.acting_as = "worker"
            try:
                task.service()
            except BaseException as e:  # the real worker loop catches BaseException too
                self.worker_exc.append(e)
            finally:
                env.S.acting_as = "io"
        return n


class Conn:
    def __init__(self, env, sock):
        self.env = env
        self.sock = sock

    @property
    def ch(self):
        return self.env.map.get(self.sock.fd)

    @property
    def wire(self):
        return bytes(self.sock.out)

    @property
    def closed(self):
        return self.sock.closed

    def send(self, data, pump=True):
        self.env.activate()
        self.sock.client_send(data)
        if pump:
            self.env.pump()

    def eof(self, pump=True):
        self.env.activate()
        self.sock.client_eof()
        if pump:
            self.env.pump()

    def reset(self, pump=True):
        self.env.activate()
        self.sock.client_reset()
        if pump:
            self.env.pump()


class Env:
    """One server (real TcpWSGIServer) over a private virtual world."""

    def __init__(self, app, peer_default=("127.0.0.1", 40000), unix=False, **adj):
        venv.install()
        import waitress.server
        from waitress.adjustments import Adjustments

        self.S = sched.SeqSched()
        self.S.acting_as = "io"
        self.W = venv.World(self.S)
        venv.set_world(self.W)
        self.map = {}
        self.app = app
        self.calls = []  # filled by the application
        self.escaped = []  # exceptions that escaped an event handler into wasyncore's catch-all
        self.disp = SyncDispatcher()
        self.adj = Adjustments(**adj)
        self.listener = venv.VSock(self.W, "listen", listening=True)
        self.unix = unix
        if unix:
            cls = waitress.server.UnixWSGIServer
            self.server = cls(self._app, map=self.map, _sock=self.listener, dispatcher=self.disp, adj=self.adj, bind_socket=False)
        else:
            cls = waitress.server.TcpWSGIServer
            self.server = cls(self._app, map=self.map, _sock=self.listener, dispatcher=self.disp, adj=self.adj)
        self.nconn = 0
        self.auto_run = True  # run queued tasks after every loop turn
        self.peer_default = peer_default
        self._patch_handle_error()

    def _app(self, environ, start_response):
        return self.app(environ, start_response)

    def _patch_handle_error(self):
        # record exceptions that reach wasyncore's last-resort handler
        import sys

        import waitress.wasyncore as wc

        env = self
        if getattr(wc.dispatcher, "_mc_patched", False):
            return
        orig = wc.dispatcher.handle_error

        def handle_error(self):
            w = venv.W
            rec = getattr(w, "escaped", None)
            if rec is not None:
                t, v, tb = sys.exc_info()
                rec.append((type(self).__name__, t.__name__, str(v)[:200]))
            return orig(self)

        wc.dispatcher.handle_error = handle_error
        wc.dispatcher._mc_patched = True

    def activate(self):
        if venv.W is not self.W:
            venv.set_world(self.W)
        self.W.escaped = self.escaped

    def connect(self, peer=None, pump=True):
        self.activate()
        self.nconn += 1
        del self.W.events[:]
        del self.W.log[:]
        s = venv.VSock(self.W, f"c{self.nconn}", peer or self.peer_default)
        self.listener.backlog.append(s)
        if pump:
            self.pump()
        return Conn(self, s)

    def turn(self):
        """One turn of the real I/O loop, then run whatever tasks it queued."""
        import waitress.wasyncore as wc

        self.activate()
        before = self._progress()
        if self.adj.asyncore_use_poll:
            wc.poll2(0.0, self.map)
        else:
            wc.poll(0.0, self.map)
        ran = self.disp.run_all(self) if self.auto_run else 0
        return ran > 0 or self._progress() != before

    def _progress(self):
        return self.W.nprog

    def pump(self, limit=200000):
        for i in range(limit):
            if not self.turn():
                return i
        raise RuntimeError("sequential loop did not become idle")

    def close(self):
        self.activate()
        try:
            for obj in list(self.map.values()):
                try:
                    obj.close()
                except Exception:
                    pass
        finally:
            self.map.clear()

    # -- snapshots ---------------------------------------------------------
    def snapshot(self, conn):
        """Exact concrete state of one connection (channel, parser, receiver,
        buffers, socket, wire, application call log) as bytes."""
        self.activate()
        ch = conn.ch
        f = io.BytesIO()
        p = _P(f, self)
        p.dump((conn.sock if ch is None else None, ch, self.calls, self.W.now))
        return f.getvalue()

    def restore(self, blob, old=None):
        self.activate()
        if old is not None:
            self.map.pop(old.sock.fd, None)
            self.server.active_channels.pop(old.sock.fd, None)
            self.W.fds.pop(old.sock.fd, None)
        sock, ch, calls, now = _U(io.BytesIO(blob), self).load()
        if ch is not None:
            sock = ch.socket
        self.calls[:] = calls
        self.W.now = now
        del self.W.events[:]
        if not sock.closed:
            self.W.fds[sock.fd] = sock
        if ch is not None:
            self.map[ch._fileno] = ch
            self.server.active_channels[ch._fileno] = ch
        return Conn(self, sock)


class _P(pickle.Pickler):
    def __init__(self, f, env):
        super().__init__(f, protocol=4)
        self.env = env
        # no memo: the bytes depend on structure only, never on which objects
        # happen to be shared, so equal concrete states give equal snapshots
        self.fast = True

    def persistent_id(self, obj):
        e = self.env
        if obj is e.server:
            return "server"
        if obj is e.adj:
            return "adj"
        if obj is e.map:
            return "map"
        if obj is e.W:
            return "world"
        if obj is e:
            return "env"
        if obj is sched.MAIN:
            return "main"
        return None


class _U(pickle.Unpickler):
    def __init__(self, f, env):
        super().__init__(f)
        self.env = env

    def persistent_load(self, pid):
        e = self.env
        return {"server": e.server, "adj": e.adj, "map": e.map, "world": e.W, "env": e, "main": sched.MAIN}[pid]
