"""Shared E1 scenario base: the real server + channel(s) + dispatcher + I/O
loop over the virtual environment, with scripted clients and applications."""
from . import apps, explore, sched, seq, venv

_ref_cache = {}


class App:
    """Scripted application for E1 scenarios.

    programs: {path: dict(body=[chunks], cl=True|False, status, block=flag name,
               pre=callable)}.  Records enter/exit events per connection."""

    def __init__(self, S, programs, flags):
        self.S = S
        self.programs = programs
        self.flags = flags
        self.events = []  # ("enter"|"exit", path, thread)
        self.active = 0
        self.max_active = 0
        self.closed_iters = []

    def __call__(self, environ, start_response):
        path = environ["PATH_INFO"]
        prog = self.programs.get(path) or self.programs["*"]
        me = self.S.me_name()
        self.active += 1
        self.max_active = max(self.max_active, self.active)
        self.events.append(("enter", path, me, environ.get("HTTP_X_ID")))
        app = self

        body = environ["wsgi.input"].read()
        flag = prog.get("block")
        if flag and not prog.get("write_first"):
            self.S.block_until(lambda: self.flags.get(flag), "app-wait", flag)
        chunks = list(prog.get("body", [b"ok"]))
        headers = [("Content-Type", "text/plain")]
        if prog.get("declare") is not None:
            headers.append(("Content-Length", str(prog["declare"])))
        elif prog.get("cl", True):
            headers.append(("Content-Length", str(sum(map(len, chunks)))))
        if prog.get("echo"):
            chunks = [body]
            headers = [("Content-Length", str(len(body)))]
        write = start_response(prog.get("status", "200 OK"), headers)
        if prog.get("write_first") and chunks:  # (an empty first chunk sends just the head)
            # the head and the first chunk leave through write(); then the application goes on working
            write(chunks.pop(0))
            if flag:
                self.S.block_until(lambda: self.flags.get(flag), "app-wait", flag)

        class It:
            def __init__(self):
                self.i = 0

            def __iter__(self):
                return self

            def __next__(self):
                if self.i >= len(chunks):
                    raise StopIteration
                c = chunks[self.i]
                self.i += 1
                return c

            def close(self):
                app.active -= 1
                app.events.append(("exit", path, app.S.me_name(), environ.get("HTTP_X_ID")))
                app.closed_iters.append(path)

        return It()


def reference_wire(key, adj_kw, programs, stream):
    """Wire of a sequential run of the same pipeline (one fixed schedule, one
    read), used as the byte-for-byte expectation.  Cached per scenario."""
    k = repr((key, sorted(adj_kw.items()), stream, sorted((a, sorted(b.items())) for a, b in programs.items())))
    if k in _ref_cache:
        return _ref_cache[k]
    saved = venv.W
    env = seq.Env(None, **adj_kw)
    flags = {}
    order = []

    class FakeS:
        def me_name(self):
            return "ref"

        def block_until(self, pred, kind, obj=None, **kw):
            return True

    a = App(FakeS(), programs, flags)
    env.app = a
    c = env.connect()
    c.send(stream)
    res = (c.wire, c.closed, [e for e in a.events if e[0] == "enter"])
    env.close()
    venv.set_world(saved)
    _ref_cache[k] = res
    return res


class ChannelScenario(explore.Scenario):
    """params: adj (dict), workers, poll2 (bool), monitor ('channel' | 'channel+buffers' | ...)"""

    horizon = 12000
    name = "chan"
    monitor_extra = ()

    def monitored(self):
        import waitress.buffers
        import waitress.channel
        import waitress.server
        import waitress.task
        import waitress.wasyncore

        codes = set()
        codes |= sched.code_objects(waitress.channel, ["HTTPChannel"])
        codes |= sched.code_objects(waitress.task, ["ThreadedTaskDispatcher"])
        for x in self.monitor_extra:
            if x == "buffers":
                codes |= sched.code_objects(waitress.buffers)
            elif x == "wasyncore":
                codes |= sched.code_objects(waitress.wasyncore, ["dispatcher.close", "dispatcher.del_channel", "dispatcher.add_channel", "dispatcher.send", "dispatcher.recv"])
            elif x == "server":
                codes |= sched.code_objects(waitress.server, ["BaseWSGIServer.maintenance", "BaseWSGIServer.readable", "BaseWSGIServer.handle_accept"])
        return codes

    # -- construction ------------------------------------------------------
    def make_server(self, S, W, app, adj_kw, workers):
        import waitress.server
        import waitress.task
        from waitress.adjustments import Adjustments

        m = TrackedMap(S)
        listener = venv.VSock(W, "listen", listening=True)
        disp = waitress.task.ThreadedTaskDispatcher()
        adj = Adjustments(**adj_kw)
        srv = waitress.server.TcpWSGIServer(app, map=m, _sock=listener, dispatcher=disp, adj=adj)
        disp.set_thread_count(workers)
        return srv, m, listener, disp

    def make_channel(self, W, srv, m, name, peer=("127.0.0.1", 40000)):
        import waitress.channel

        sock = venv.VSock(W, name, peer)
        ch = waitress.channel.HTTPChannel(srv, sock, peer, srv.adj, map=m)
        return ch, sock

    def start_io(self, S, srv, m, poll2=False):
        import waitress.wasyncore as wc

        def io():
            wc.loop(timeout=None, use_poll=poll2, map=m)

        return S.spawn(io, (), "io")

    @staticmethod
    def chan_fp(ch, sock):
        lk = ch.outbuf_lock._lock
        rl = ch.requests_lock
        return (
            len(ch.requests), ch.request is not None, ch.will_close, ch.close_when_flushed, ch.sent_continue, ch.total_outbufs_len,
            ch.current_outbuf_count, ch.connected, len(ch.outbufs), lk.owner.idx if lk.owner else None, rl.owner.idx if rl.owner else None,
            len(ch.outbuf_lock.waiters), len(sock.out), len(sock.inq), sock.closed, sock.window,
        )

    def cleanup(self, ctx):
        srv = ctx.get("srv") if isinstance(ctx, dict) else None
        if srv is not None:
            try:
                for obj in list(srv._map.values()):
                    try:
                        obj.close()
                    except BaseException:
                        pass
            except BaseException:
                pass


class TrackedMap(dict):
    """The socket map, recording which thread mutates it."""

    def __init__(self, S):
        super().__init__()
        self.S = S
        self.mutations = []

    def __setitem__(self, k, v):
        self.mutations.append(("set", k, self.S.me_name()))
        super().__setitem__(k, v)

    def __delitem__(self, k):
        self.mutations.append(("del", k, self.S.me_name()))
        super().__delitem__(k)

    def pop(self, k, *a):
        self.mutations.append(("pop", k, self.S.me_name()))
        return super().pop(k, *a)

    def clear(self):
        self.mutations.append(("clear", None, self.S.me_name()))
        super().clear()
