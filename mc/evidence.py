"""Evidence files, violation reporting, known-findings handling.

A check creates one `Run`, reports what it covered through `Run.cov`, reports
violations through `Run.violation(key, what, replay_obj)` and finishes with
`Run.finish()` which writes /verif/evidence/<id>.json, prints the VIOLATION /
KNOWN-FINDING lines and returns the process exit status.

known_findings.json is read-only at run time.  A violation is suppressed (and
printed as KNOWN-FINDING) only when its *key* is listed for the property; keys
are specific (input class / call site / history), so a different violation of
the same property still fails the check.
"""
import json
import os
import time

from .common import SEED, VERIF_DIR

# the two overrides exist for tools_seeded.py / tools_mutate.py, which run checks against modified
# scratch trees and must not touch the evidence of the real tree
EVID_DIR = os.environ.get("VERIF_EVIDENCE_DIR") or os.path.join(VERIF_DIR, "evidence")
REPLAY_DIR = os.environ.get("VERIF_REPLAY_DIR") or os.path.join(VERIF_DIR, "replays")
KNOWN_FILE = os.path.join(VERIF_DIR, "known_findings.json")


def load_known():
    try:
        with open(KNOWN_FILE) as f:
            d = json.load(f)
    except FileNotFoundError:
        return {}
    out = {}
    for ent in d.get("findings", []):
        out.setdefault(ent["property"], {})[ent["key"]] = ent.get("what", "")
    return out


def _jsonable(o, depth=0):
    if isinstance(o, (bytes, bytearray)):
        return o.decode("latin-1")
    if isinstance(o, (str, int, float, bool)) or o is None:
        return o
    if isinstance(o, dict):
        return {str(_jsonable(k)): _jsonable(v, depth + 1) for k, v in o.items()}
    if isinstance(o, (list, tuple, set, frozenset)):
        seq = sorted(o, key=repr) if isinstance(o, (set, frozenset)) else o
        return [_jsonable(v, depth + 1) for v in seq]
    return repr(o)


class Run:
    def __init__(self, pid, tier, level="model_checking"):
        self.pid = pid
        self.tier = tier
        self.level = level
        self.t0 = time.time()
        self.cov = {
            "states": 0,
            "transitions": 0,
            "traces_validated_against_impl": 0,
            "evaluations": 0,
            "distinct_nontrivial": 0,
            "rule": "",
            "samples": [],
            "exhaustive": True,
            "caps_hit": [],
            "parts": {},
        }
        self.assumptions = []
        self.known = load_known().get(pid, {})
        self.known_hit = {}
        self.violations = []  # (key, what, path)
        self._nrep = 0
        self.max_report = 25

    # -- coverage helpers -------------------------------------------------
    def add(self, **kw):
        for k, v in kw.items():
            self.cov[k] = self.cov.get(k, 0) + v

    def part(self, name, **kw):
        """Per-sub-check figures (kept under coverage.parts.<name>)."""
        d = self.cov["parts"].setdefault(name, {})
        for k, v in kw.items():
            if isinstance(v, (int, float)) and not isinstance(v, bool):
                d[k] = d.get(k, 0) + v
            else:
                d[k] = v

    def sample(self, s, limit=12):
        if len(self.cov["samples"]) < limit:
            self.cov["samples"].append(_jsonable(s))

    def cap(self, what):
        self.cov["exhaustive"] = False
        self.cov["caps_hit"].append(what)

    def assume(self, *a):
        for x in a:
            if x not in self.assumptions:
                self.assumptions.append(x)

    # -- violations -------------------------------------------------------
    def violation(self, key, what, replay=None):
        """Report one violating case.  `key` classifies it (used for the
        known-findings table); `replay` is a JSON-able object from which
        `./check <id> --replay <path>` re-runs exactly this case."""
        if key in self.known:
            n = self.known_hit.get(key, 0)
            self.known_hit[key] = n + 1
            return False
        self._perkey = getattr(self, "_perkey", {})
        self._perkey[key] = self._perkey.get(key, 0) + 1
        if len(self.violations) >= self.max_report or self._perkey[key] > 2:
            self.violations.append((key, what, None))
            return True
        os.makedirs(os.path.join(REPLAY_DIR, self.pid), exist_ok=True)
        self._nrep += 1
        path = os.path.join(REPLAY_DIR, self.pid, f"{self._nrep}.json")
        with open(path, "w") as f:
            json.dump(
                {"property": self.pid, "key": key, "what": what, "replay": _jsonable(replay)},
                f,
                indent=1,
            )
        self.violations.append((key, what, path))
        return True

    # -- finishing --------------------------------------------------------
    def finish(self):
        wall = time.time() - self.t0
        cov = self.cov
        if not cov["caps_hit"]:
            cov.pop("caps_hit")
        cov["known_findings_seen"] = {k: v for k, v in sorted(self.known_hit.items())}
        ev = {
            "property_id": self.pid,
            "tier": self.tier,
            "seed": SEED,
            "level": self.level,
            "coverage": cov,
            "assumptions": self.assumptions,
            "wall_s": round(wall, 2),
            "violations": len(self.violations),
        }
        os.makedirs(EVID_DIR, exist_ok=True)
        with open(os.path.join(EVID_DIR, f"{self.pid}.json"), "w") as f:
            json.dump(_jsonable(ev), f, indent=1)
            f.write("\n")
        for key, n in sorted(self.known_hit.items()):
            print(f"KNOWN-FINDING: property={self.pid} {key}: {self.known[key]} (seen {n}x)")
        seen = set()
        for key, what, path in self.violations:
            if path is None:
                continue
            print(f"VIOLATION property={self.pid} replay={path}")
            if key not in seen:
                seen.add(key)
                print(f"  [{key}] {what}")
        print(
            f"{self.pid} {self.tier}: states={cov['states']} transitions={cov['transitions']} "
            f"executions={cov['traces_validated_against_impl']} evaluations={cov['evaluations']} "
            f"distinct={cov['distinct_nontrivial']} exhaustive={cov['exhaustive']} "
            f"violations={len(self.violations)} known={len(self.known_hit)} wall={wall:.1f}s"
        )
        return 1 if self.violations else 0
