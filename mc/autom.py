"""E4: regular-language machinery for C10.

* regex AST (re._parser) -> NFA over bytes, with explicit handling of a final
  `$` / `\\Z` and of match vs fullmatch;
* small combinator library for writing the RFC grammars independently;
* subset construction over byte classes, boolean operations, product search
  for a shortest distinguishing string.
"""
import re
from collections import deque

try:
    import re._parser as sre_parse
    import re._constants as sre_c
except ImportError:  # pragma: no cover
    import sre_constants as sre_c
    import sre_parse

ALL = frozenset(range(256))


class Unsupported(Exception):
    pass


# ---------------------------------------------------------------------------
# NFA with epsilon moves: states are ints; trans: list of (src, byteset|None, dst)
# ---------------------------------------------------------------------------
class NFA:
    def __init__(self):
        self.n = 0
        self.eps = {}
        self.tr = {}
        self.start = None
        self.accept = set()

    def new(self):
        self.n += 1
        return self.n - 1

    def add(self, a, bs, b):
        if bs is None:
            self.eps.setdefault(a, set()).add(b)
        else:
            self.tr.setdefault(a, []).append((frozenset(bs), b))


class Frag:
    __slots__ = ("s", "e")

    def __init__(self, s, e):
        self.s, self.e = s, e


class Builder:
    """Thompson construction."""

    def __init__(self):
        self.nfa = NFA()
        self.sets = set()

    def lit(self, bs):
        bs = frozenset(bs)
        self.sets.add(bs)
        n = self.nfa
        a, b = n.new(), n.new()
        n.add(a, bs, b)
        return Frag(a, b)

    def empty(self):
        n = self.nfa
        a = n.new()
        return Frag(a, a)

    def seq(self, *fs):
        fs = [f for f in fs]
        if not fs:
            return self.empty()
        for x, y in zip(fs, fs[1:]):
            self.nfa.add(x.e, None, y.s)
        return Frag(fs[0].s, fs[-1].e)

    def alt(self, *fs):
        n = self.nfa
        a, b = n.new(), n.new()
        for f in fs:
            n.add(a, None, f.s)
            n.add(f.e, None, b)
        return Frag(a, b)

    def star(self, mk):
        n = self.nfa
        f = mk()
        a, b = n.new(), n.new()
        n.add(a, None, f.s)
        n.add(a, None, b)
        n.add(f.e, None, f.s)
        n.add(f.e, None, b)
        return Frag(a, b)

    def plus(self, mk):
        return self.seq(mk(), self.star(mk))

    def opt(self, mk):
        return self.alt(mk(), self.empty())

    def repeat(self, mk, lo, hi):
        parts = [mk() for _ in range(lo)]
        if hi is None:
            parts.append(self.star(mk))
        else:
            for _ in range(hi - lo):
                parts.append(self.opt(mk))
        return self.seq(*parts) if parts else self.empty()

    def finish(self, f):
        self.nfa.start = f.s
        self.nfa.accept = {f.e}
        return self.nfa


# ---------------------------------------------------------------------------
# regex AST -> NFA
# ---------------------------------------------------------------------------
def _in_set(items):
    neg = False
    s = set()
    for op, av in items:
        if op is sre_c.NEGATE:
            neg = True
        elif op is sre_c.LITERAL:
            if av < 256:
                s.add(av)
        elif op is sre_c.RANGE:
            lo, hi = av
            s.update(range(lo, min(hi, 255) + 1))
        elif op is sre_c.CATEGORY:
            s.update(_category(av))
        else:
            raise Unsupported(f"set item {op}")
    return (ALL - s) if neg else frozenset(s)


def _category(c):
    probe = {
        sre_c.CATEGORY_DIGIT: rb"\d", sre_c.CATEGORY_NOT_DIGIT: rb"\D",
        sre_c.CATEGORY_SPACE: rb"\s", sre_c.CATEGORY_NOT_SPACE: rb"\S",
        sre_c.CATEGORY_WORD: rb"\w", sre_c.CATEGORY_NOT_WORD: rb"\W",
    }.get(c)
    if probe is None:
        raise Unsupported(f"category {c}")
    r = re.compile(probe)
    return {b for b in range(256) if r.fullmatch(bytes([b]))}


def regex_to_nfa(pattern, mode):
    """pattern: compiled bytes pattern.  mode: 'match' | 'fullmatch'.
    Returns (Builder, NFA) accepting exactly the byte strings w for which
    pattern.<mode>(w) succeeds.  Only a leading ^ and a trailing $ / \\Z are
    supported as anchors."""
    if pattern.flags & (re.MULTILINE | re.IGNORECASE | re.DOTALL | re.VERBOSE):
        raise Unsupported("flags")
    src = pattern.pattern
    ast = sre_parse.parse(src)
    items = list(ast)
    B = Builder()
    end_anchor = None
    if items and items[0][0] is sre_c.AT and items[0][1] is sre_c.AT_BEGINNING:
        items = items[1:]
    if items and items[-1][0] is sre_c.AT:
        which = items[-1][1]
        if which is sre_c.AT_END:
            end_anchor = "$"
        elif which is sre_c.AT_END_STRING:
            end_anchor = "Z"
        else:
            raise Unsupported(f"anchor {which}")
        items = items[:-1]

    def conv_seq(seq):
        return B.seq(*[conv(op, av) for op, av in seq]) if len(seq) else B.empty()

    def conv(op, av):
        if op is sre_c.LITERAL:
            return B.lit({av}) if av < 256 else B.lit(set())
        if op is sre_c.NOT_LITERAL:
            return B.lit(ALL - {av})
        if op is sre_c.ANY:
            return B.lit(ALL - {10})
        if op is sre_c.IN:
            return B.lit(_in_set(av))
        if op is sre_c.BRANCH:
            return B.alt(*[conv_seq(list(x)) for x in av[1]])
        if op is sre_c.SUBPATTERN:
            return conv_seq(list(av[3]))
        if op in (sre_c.MAX_REPEAT, sre_c.MIN_REPEAT) or getattr(sre_c, "POSSESSIVE_REPEAT", None) is op:
            if getattr(sre_c, "POSSESSIVE_REPEAT", None) is op:
                raise Unsupported("possessive repeat")
            lo, hi, sub = av
            if hi is sre_c.MAXREPEAT or hi == sre_c.MAXREPEAT:
                hi = None
            sub = list(sub)
            if hi is not None and hi > 40:
                raise Unsupported("large bounded repeat")
            return B.repeat(lambda: conv_seq(sub), lo, hi)
        raise Unsupported(f"regex operator {op}")

    body = conv_seq(items)
    if mode == "fullmatch":
        f = body
    elif end_anchor == "Z":
        f = body
    elif end_anchor == "$":
        f = B.seq(body, B.opt(lambda: B.lit({10})))
    else:
        f = B.seq(body, B.star(lambda: B.lit(ALL)))
    return B, B.finish(f)


# ---------------------------------------------------------------------------
# DFA over byte classes
# ---------------------------------------------------------------------------
def byte_classes(charsets):
    """Partition 0..255 by membership in the given sets.  Returns (class id per
    byte, representative byte per class)."""
    sig = {}
    cls = [0] * 256
    reps = []
    sets = list(charsets)
    for b in range(256):
        k = tuple(b in s for s in sets)
        if k not in sig:
            sig[k] = len(reps)
            reps.append(b)
        cls[b] = sig[k]
    return cls, reps


class DFA:
    """Complete DFA over class ids 0..k-1; state 0 is the start."""

    def __init__(self, k):
        self.k = k
        self.delta = []  # list of lists
        self.acc = []

    def accepts_classes(self, word):
        s = 0
        for c in word:
            s = self.delta[s][c]
        return self.acc[s]


def determinize(nfa, cls, reps):
    k = len(reps)

    def closure(states):
        st = set(states)
        stack = list(states)
        while stack:
            s = stack.pop()
            for t in nfa.eps.get(s, ()):
                if t not in st:
                    st.add(t)
                    stack.append(t)
        return frozenset(st)

    start = closure({nfa.start})
    index = {start: 0}
    d = DFA(k)
    d.delta.append([None] * k)
    d.acc.append(bool(start & nfa.accept))
    q = deque([start])
    while q:
        S = q.popleft()
        i = index[S]
        for c in range(k):
            b = reps[c]
            T = set()
            for s in S:
                for bs, t in nfa.tr.get(s, ()):
                    if b in bs:
                        T.add(t)
            T = closure(T)
            j = index.get(T)
            if j is None:
                j = len(d.delta)
                index[T] = j
                d.delta.append([None] * k)
                d.acc.append(bool(T & nfa.accept))
                q.append(T)
            d.delta[i][c] = j
    return d


def product(a, b, fn):
    """DFA for fn(acc_a, acc_b) (same class alphabet)."""
    assert a.k == b.k
    index = {(0, 0): 0}
    d = DFA(a.k)
    d.delta.append([None] * a.k)
    d.acc.append(fn(a.acc[0], b.acc[0]))
    q = deque([(0, 0)])
    while q:
        x, y = q.popleft()
        i = index[(x, y)]
        for c in range(a.k):
            t = (a.delta[x][c], b.delta[y][c])
            j = index.get(t)
            if j is None:
                j = len(d.delta)
                index[t] = j
                d.delta.append([None] * a.k)
                d.acc.append(fn(a.acc[t[0]], b.acc[t[1]]))
                q.append(t)
            d.delta[i][c] = j
    return d


def complement(a):
    d = DFA(a.k)
    d.delta = [row[:] for row in a.delta]
    d.acc = [not x for x in a.acc]
    return d


def distinguish(m, s, reps, limit=1):
    """BFS over reachable product states of m x s.  Returns (number of product
    states, number of product transitions, list of shortest witnesses): each
    witness (bytes, in_m, in_s) is a string on which exactly one side accepts;
    at most `limit` per direction."""
    start = (0, 0)
    parent = {start: None}
    q = deque([start])
    wit = {True: [], False: []}
    ntrans = 0
    while q:
        st = q.popleft()
        x, y = st
        if m.acc[x] != s.acc[y]:
            side = m.acc[x]
            if len(wit[side]) < limit:
                w = []
                cur = st
                while parent[cur] is not None:
                    cur, c = parent[cur]
                    w.append(reps[c])
                wit[side].append((bytes(reversed(w)), m.acc[x], s.acc[y]))
        for c in range(m.k):
            ntrans += 1
            t = (m.delta[x][c], s.delta[y][c])
            if t not in parent:
                parent[t] = (st, c)
                q.append(t)
    return len(parent), ntrans, wit[True] + wit[False]


def concat(a, b):
    """DFA for L(a).L(b)."""
    k = a.k

    def norm(x, ys):
        ys = set(ys)
        if a.acc[x]:
            ys.add(0)
        return (x, frozenset(ys))

    start = norm(0, ())
    index = {start: 0}
    d = DFA(k)
    d.delta.append([None] * k)
    d.acc.append(any(b.acc[y] for y in start[1]))
    q = deque([start])
    while q:
        st = q.popleft()
        x, ys = st
        i = index[st]
        for c in range(k):
            t = norm(a.delta[x][c], {b.delta[y][c] for y in ys})
            j = index.get(t)
            if j is None:
                j = len(d.delta)
                index[t] = j
                d.delta.append([None] * k)
                d.acc.append(any(b.acc[y] for y in t[1]))
                q.append(t)
            d.delta[i][c] = j
    return d


def union(a, b):
    return product(a, b, lambda x, y: x or y)


def intersect(a, b):
    return product(a, b, lambda x, y: x and y)


def from_builder(B, frag, cls, reps):
    return determinize(B.finish(frag), cls, reps)
