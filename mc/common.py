"""Shared settings: where the implementation under test lives, tier, seed."""
import os
import sys

VERIF_DIR = os.path.dirname(os.path.dirname(os.path.abspath(__file__)))
REPO = os.environ.get("VERIF_REPO", "/repo")
SRC = os.path.join(REPO, "src")
SEED = int(os.environ.get("VERIF_SEED", "0") or 0)
NPROC = int(os.environ.get("VERIF_JOBS", "0") or 0) or (os.cpu_count() or 4)

sys.dont_write_bytecode = True


def setup_path():
    """Make `import waitress` resolve to the working tree under test."""
    if SRC not in sys.path[:1]:
        sys.path.insert(0, SRC)
    import waitress

    got = os.path.realpath(os.path.dirname(waitress.__file__))
    want = os.path.realpath(os.path.join(SRC, "waitress"))
    if got != want:
        raise RuntimeError(f"waitress imported from {got}, expected {want}")
    return waitress
