#!/usr/bin/env python3
"""Seeded-change bookkeeping.

  tools_seeded.py verify <dir>            confirm: existing tests pass with the patch, demo fails with / passes without
  tools_seeded.py run <dir> [C01,C02|all] run ./check (quick) against a scratch copy with the patch; report who catches it
  tools_seeded.py table                   rewrite seeded/RESULTS.md from the meta.json files

A seeded change lives in seeded/<name>/ {patch.diff, demo.py, meta.json}.  Scratch
copies go to a fresh directory under /tmp and are removed at once.
"""
import json
import os
import shutil
import subprocess
import sys
import tempfile
import time

HERE = os.path.dirname(os.path.abspath(__file__))
REPO = "/repo"
PY = "/venv/bin/python"


def scratch(patch=None):
    d = tempfile.mkdtemp(prefix="seedrun-")
    subprocess.check_call(["git", "-C", REPO, "worktree", "add", "-q", "--detach", os.path.join(d, "wt"), "HEAD"])
    wt = os.path.join(d, "wt")
    if patch:
        subprocess.check_call(["git", "-C", wt, "apply", patch])
    return d, wt


def drop(d):
    wt = os.path.join(d, "wt")
    subprocess.call(["git", "-C", REPO, "worktree", "remove", "--force", wt])
    shutil.rmtree(d, ignore_errors=True)


def run_tests(wt):
    env = dict(os.environ, PYTHONPATH=os.path.join(wt, "src"), PYTHONDONTWRITEBYTECODE="1")
    p = subprocess.run([PY, "-m", "pytest", "-q", "-p", "no:cacheprovider", "-x", "--no-cov"], cwd=wt, env=env, capture_output=True, text=True)
    tail = (p.stdout.strip().splitlines() or [""])[-1]
    return p.returncode, tail


def run_demo(wt, demo):
    env = dict(os.environ, PYTHONPATH=os.path.join(wt, "src"), PYTHONDONTWRITEBYTECODE="1")
    p = subprocess.run([PY, demo], cwd=os.path.dirname(demo), env=env, capture_output=True, text=True, timeout=300)
    return p.returncode, (p.stdout + p.stderr).strip()[-400:]


def verify(sd):
    patch = os.path.join(sd, "patch.diff")
    demo = os.path.join(sd, "demo.py")
    d, wt = scratch(patch)
    try:
        rc, tail = run_tests(wt)
        dm = run_demo(wt, demo)
    finally:
        drop(d)
    d, wt = scratch(None)
    try:
        d0 = run_demo(wt, demo)
    finally:
        drop(d)
    res = {"tests_rc": rc, "tests_tail": tail, "demo_with_patch_rc": dm[0], "demo_without_patch_rc": d0[0], "demo_with_patch_out": dm[1][-300:]}
    res["confirmed"] = rc == 0 and dm[0] != 0 and d0[0] == 0
    return res


def run_checks(sd, checks, tier="quick"):
    patch = os.path.join(sd, "patch.diff")
    d, wt = scratch(patch)
    out = {}
    try:
        for c in checks:
            env = dict(os.environ, VERIF_REPO=wt, VERIF_EVIDENCE_DIR=os.path.join(d, "ev"), VERIF_REPLAY_DIR=os.path.join(d, "rp"))
            t0 = time.time()
            p = subprocess.run([os.path.join(HERE, "check"), c, "--tier", tier], cwd=HERE, env=env, capture_output=True, text=True)
            keys = []
            for ln in p.stdout.splitlines():
                s = ln.strip()
                if s.startswith("[") and "]" in s:
                    keys.append(s[1 : s.index("]")])
            out[c] = {"exit": p.returncode, "keys": keys[:8], "wall_s": round(time.time() - t0, 1)}
    finally:
        drop(d)
    return out


ALL = [f"C{i:02d}" for i in range(1, 21)]


def main():
    cmd = sys.argv[1]
    if cmd == "verify":
        sd = os.path.abspath(sys.argv[2])
        print(json.dumps(verify(sd), indent=1))
    elif cmd == "run":
        sd = os.path.abspath(sys.argv[2])
        checks = ALL if len(sys.argv) < 4 or sys.argv[3] == "all" else sys.argv[3].split(",")
        tier = sys.argv[4] if len(sys.argv) > 4 else "quick"
        res = run_checks(sd, checks, tier)
        for c, r in res.items():
            print(c, "DETECTED" if r["exit"] == 1 else ("silent" if r["exit"] == 0 else f"exit {r['exit']}"), r["wall_s"], r["keys"][:4])
        mp = os.path.join(sd, "meta.json")
        if os.path.exists(mp):
            m = json.load(open(mp))
            m.setdefault("check_results", {}).setdefault(tier, {}).update(res)
            m["detected_by"] = sorted({c for t in m["check_results"].values() for c, r in t.items() if r["exit"] == 1})
            json.dump(m, open(mp, "w"), indent=1)
    elif cmd == "table":
        rows = []
        base = os.path.join(HERE, "seeded")
        for name in sorted(os.listdir(base)):
            mp = os.path.join(base, name, "meta.json")
            if not os.path.exists(mp):
                continue
            m = json.load(open(mp))
            rows.append((name, m.get("property"), m.get("summary", ""), m.get("needs", ""), ", ".join(m.get("detected_by", [])) or "—"))
        with open(os.path.join(base, "RESULTS.md"), "w") as f:
            f.write("# Seeded changes and the checks that report them\n\n| seed | breaks | change | needs | reported by (quick tier unless noted) |\n|---|---|---|---|---|\n")
            for r in rows:
                f.write("| " + " | ".join(str(x).replace("|", "/").replace("\n", " ") for x in r) + " |\n")
        print(len(rows), "rows")


if __name__ == "__main__":
    main()
