#!/usr/bin/env python3
"""Regenerates MANIFEST.json from the table below (run after adding a check)."""
import json, os
HERE = os.path.dirname(os.path.abspath(__file__))
BASE = "cd /repo && /venv/bin/python -m pytest -ra -q -p no:cacheprovider --timeout=900 --continue-on-collection-errors"
E1 = "E1 controlled-scheduler explorer (real threads, virtual OS)"
E2N = "real sequential transition functions; exact-state merging (pickled concrete state)"
CHECKS = {
 "C01": dict(engine="E2", technique="exhaustive enumeration of a finite grammar instance and of all single-token mutations + explicit-state BFS over token sequences on the real parser, compared step-wise with an independent RFC 9112 reference parser",
   text="Every sentence of the finite request-grammar instance (x follow-up x leading CRLF x 3 limit settings), every single-token mutation of 8 base messages at every position, and every token sequence up to the stated depth after a chunked head / a request line are executed on the real server and must be delivered, refused or left pending exactly as an independent reference parser says, with a sentinel request exposing any desynchronisation.",
   note="one fixed schedule, unsplit delivery; tolerances T1-T9 (DESIGN appendix A) accept either outcome where RFC 9112 gives latitude; reference parser is trusted", ref="DESIGN.md §4 C01, appendix A"),
 "C02": dict(engine="E2", technique="explicit-state BFS of the cut graph (node = offset + exact concrete state, edge = next read length) covering all 2^(n-1) segmentations of each stream",
   text="For every stream of the corpus all segmentations are covered as paths of the exhaustively explored cut graph of the real channel/parser/receiver; all terminal observations must coincide.",
   note="merging only on byte-identical pickled state; node cap reported if hit; one fixed thread schedule", ref="DESIGN.md §4 C02"),
 "C03": dict(engine="E5", technique="exhaustive enumeration of a finite language of application programs x request shapes on the real server, wire decoded by an independent client-side parser",
   text="Every program of the response language (status class x delivery path x all chunk sequences up to the stated length x declared Content-Length relation x start_response re-call x failure step) crossed with method/version/Connection/pipelining depth is executed; the wire must parse as one complete response per executed request with the program's status, headers and body (cut at a declared length), undelimitable responses must end the connection, closure must be announced when known in advance, and a response that does not announce closing must be followed by service of the next request.",
   note="one fixed schedule, client reads everything; HEAD-with-body and multi/non-decimal Content-Length applications are outside the quantifier", ref="DESIGN.md §4 C03"),
 "C04": dict(engine="E1", technique="stateless exhaustive schedule enumeration (pre-emption/deviation bounded) of the real channel, tasks, dispatcher and I/O loop under a controlled scheduler with a virtual OS",
   text="For each pipeline scenario (two/three requests, bodies split over segments, Connection: close in the middle, a pipelined expecting request, lookahead 0..2, 1-2 workers, short-send choices) every interleaving of the I/O thread and the workers within the deviation bound is executed on the real code; application invocations must be sequential, in arrival order, each exactly once, and the client's byte log must equal, final response by final response, the wire of a sequential reference run.",
   note="CPython line atomicity; scheduling points at every HTTPChannel/dispatcher source line and every virtual lock/condition/socket/pipe/select operation; bounds per scenario in evidence.parts", ref="DESIGN.md §4 C04, §2 E1, appendix B"),
 "C05": dict(engine="E1", technique="stateless exhaustive schedule enumeration (deviation bounded) with an infinite poll timeout; liveness judged at quiescence of the controlled system",
   text="With select/poll never timing out, every interleaving within the bound of the I/O thread, the workers and the client's drain/segment events is executed on the real code for response sizes around the send window, send_bytes and the high watermark, both poll implementations, worker-side close decisions and late arrivals; at quiescence nothing may be pending while the socket is writable, no request or task may be queued, no close may be outstanding, no producer may wait for space that is available, the client must hold the complete responses, and a spinning I/O thread counts as a violation.",
   note="quiescence = no virtual thread enabled and the environment script finished; virtual select evaluates the descriptor lists as passed", ref="DESIGN.md §4 C05"),
 "C06": dict(engine="E2", technique="exhaustive boundary enumeration of limits x sizes x read sizes + explicit-state token BFS under tiny limits on the real parser, against the reference verdict and a consumption bound",
   text="Every case of the boundary sweeps (head length vs header limit at -1/0/+1, declared and chunked body sizes around the body limit, unterminated lines past tiny limits, numbers of up to 10^5 digits, odd targets) x read sizes {1,7,8192}, and every token sequence up to the stated depth under limits (header 24, body 8), runs on the real server: refused messages never reach the application, exactly one well-formed 400/413/431/501 is sent and the socket closed, no exception escapes an event handler, nothing hangs, and consumption stops within one read of crossing the limit.",
   note="lookahead 0; one fixed schedule; a 20 s watchdog defines 'hang'", ref="DESIGN.md §4 C06"),
 "C07": dict(engine="E5", technique="exhaustive enumeration of targets x header sets x bodies x method/version x configurations on the real parser->task path against an independent PEP 3333 reference image",
   text="Every combination of the target, header-set, body, method/version and configuration menus is parsed and dispatched by the real server; the environ seen by the application must equal, key by key, the image computed by an independent reference (RFC 3986 splitting, percent-decoding, url_prefix split, CGI naming with underscore names dropped and repeats joined), every value a latin-1 native string, and wsgi.input must yield exactly the framed body whose length equals CONTENT_LENGTH (incl. the chunked and the spill-to-tempfile paths).",
   note="collapse of extra leading slashes is part of the reference (documented behaviour); REQUEST_URI is the raw target", ref="DESIGN.md §4 C07"),
 "C08": dict(engine="E5", technique="exhaustive enumeration of all strings up to length n over a hostile alphabet x place x path on the real server, response head checked line by line",
   text="Every string up to the stated length over {a : SP CR LF NUL VT \\x85 e-acute euro NBSP} in the status, a header name and a header value (plus non-str objects and every letter-case variant of the hop-by-hop names) on six paths (first start_response, exc_info re-call, list mutated after the call, write(), file_wrapper, failure after start_response) is executed; the head must be the status line + exactly the application's fields + server fields with CR/LF only as terminators, or a 500 made of server strings only; CR/LF, non-strings and hop-by-hop names must take the 500 branch.",
   note="HTTP/1.1 GET on a fresh connection; default ident", ref="DESIGN.md §4 C08"),
 "C09": dict(engine="E5", technique="exhaustive enumeration of failure points x exception classes x configurations x disconnect points over the response program language on the real server",
   text="Every program of the response language with an exception injected at every step (call, missing start_response, after start_response, each write(), each iteration step, close()) x six exception classes (incl. BaseException subclasses and OSError subclasses) x expose_tracebacks x log_socket_errors, and a client disconnect before every iteration step, is executed: one complete 500 + close before any output, close without further bytes afterwards, no traceback without expose_tracebacks, iterable close() exactly once, handed-over files closed once, connection never wedged, the server still serves a new connection.",
   note="one fixed schedule; the synchronous dispatcher plays the worker loop (same catch-all)", ref="DESIGN.md §4 C09"),
 "C10": dict(engine="E4", technique="language comparison on automata: DFA derived from the compiled patterns + call-site wrapper, exhaustive BFS of the product with the RFC grammar DFA; model bound to the code by exhaustive conformance runs against the real call sites",
   text="For each lexical gate the accepted language (as a DFA derived from the pattern source and the call-site wrapper, conformance-checked against the real parse_header / ChunkedReceiver / crack_first_line on all strings up to length n over byte-class representatives and on every byte at every seed position) is compared with the RFC grammar DFA by exhaustive search of the product automaton: equality is decided for strings of every length; numeric conversion is exercised at 1..25, 4299..4301, 5000, 10^4, 10^5 digits.",
   note="regularity; byte-class abstraction (bytes not separated by any set of model or grammar are interchangeable); wrapper models are hand-written but conformance-checked", ref="DESIGN.md §4 C10, §2 E4"),
 "C15": dict(engine="E5", technique="exhaustive enumeration of configurations x header-value assignments, relational two-run comparison on the real middleware path",
   text="For every configuration with an untrusted peer (no trusted proxy, another address, prefix/extension/padded variants of the peer address; every trusted_proxy_headers shape; count 1..3; clearing on/off) and every assignment of well-formed, malformed and hostile values to subsets of the six proxy headers, the environ equals that of the same request without those headers, and with clearing on the headers never reach the application.",
   note="peer 10.1.2.3; trusted_proxy='*' excluded by the property", ref="DESIGN.md §4 C15"),
 "C16": dict(engine="E5", technique="exhaustive enumeration of hop lists x counts x trusted-header subsets against a reference hop-selection model on the real middleware path",
   text="For a trusted peer every hop list of the stated shapes (length 1..5, all-plain or one odd element from the menus at each position, Forwarded with an attribute missing in the selected hop) x trusted_proxy_count 1..4 x every allowed subset of trusted_proxy_headers x untrusted kinds present is executed: address/host/scheme come from the count-th hop from the right (leftmost if fewer, missing attributes from the nearest more-trusted hop), hops further left never appear in the environ, untrusted kinds are stripped and without influence, the listed malformed classes give 400, and no value gives an exception or a 500.",
   note="clearing on (default); for degenerate elements outside the listed classes only totality is demanded", ref="DESIGN.md §4 C16"),
 "C17": dict(engine="E2", technique="explicit-state BFS over operation histories of the real buffers with exact concrete-state merging, against a reference byte queue",
   text="All histories of append/peek/consume/skip/len/file-view operations up to the stated depth, over sizes around the 8 KiB string limit and each overflow threshold, are executed on the real OverflowableBuffer (real BytesIO/TemporaryFile) and compared step by step with a reference bytearray queue and a final drain; ReadOnlyFileBasedBuffer likewise over prepare sizes, file sizes and start offsets.",
   note="prune() outside the quantifier; random histories beyond the bound are supplementary and non-deciding", ref="DESIGN.md §4 C17"),
 "C20": dict(engine="E5", technique="exhaustive enumeration of option subsets / values / CLI spellings / socket lists against a reference exclusion table and reference casts",
   text="All subsets of the mutually exclusive address options x proxy-trust option combinations are accepted or refused exactly as the reference exclusion table says; every adjustment x values of its type is applied as the documented cast; --x / --no-x / --x=v / repeated --listen give the same settings as the keyword form, attribute by attribute; socket lists up to length 3 over four kinds are validated; the option names of docs/arguments.rst, docs/runner.rst and the runner help text equal the implemented table.",
   note="numeric hosts only (hermetic getaddrinfo); docs compared by option name", ref="DESIGN.md §4 C20"),
 "C11": dict(engine="E1", technique="stateless exhaustive schedule enumeration (deviation bounded) of the I/O thread reading further input against the worker taking the close decision",
   text="For every combination of closing first message (Connection: close, HTTP/1.0, malformed -> error response, response that cannot be delimited, client EOF) x what follows (complete request, partial request, garbage, two requests) x same read / later segment x lookahead {0,1,2,5} x 1-2 workers, every interleaving within the bound is executed: no request behind the closing message is ever handed to the application, none twice, and no application entry happens after the first scheduling point at which the close decision is visible.",
   note="as C04; the closing message index comes from a sequential reference run", ref="DESIGN.md §4 C11"),
 "C12": dict(engine="E1", technique="stateless exhaustive schedule enumeration (deviation bounded) of one producing worker against the draining I/O thread and a scripted client",
   text="For a grid of outbuf_high_watermark {0,1,8,64} x send_bytes {1,8,100} x write sizes around the mark x client behaviours (partial drains then reading on, stall, reset or EOF at any point) every interleaving within the bound is executed: pending output sampled at every scheduling point never exceeds watermark + one write, a paused producer is never left waiting with space available, with the client reading, or after a disconnect, the client log is always a prefix of the expected stream and the iterable is closed after a disconnect.",
   note="as C04; the largest single write is measured at write_soon()", ref="DESIGN.md §4 C12"),
 "C13": dict(engine="E1", technique="stateless exhaustive enumeration of fault placements x schedules (deviation bounded) over listener + faulted connection + bystander connection on the real code with a virtual OS",
   text="Every placement of up to k injected errors (ECONNRESET, EPIPE, ENOTCONN, EBADF, EINVAL, generic OSError) on the faulted connection's setblocking/getsockopt/setsockopt/recv/send and on accept, plus client EOF and reset events, crossed with every interleaving within the deviation bound, is executed (also with a pipelined expecting request whose interim response is sent by the worker, and under poll()): the loop and the workers never exit, listener and trigger stay registered and open, the bystander's byte stream equals its reference, every socket close and socket-map mutation is performed by the I/O thread, a dead connection is torn down exactly once and unregistered.",
   note="disconnect-class errnos are sticky (dead socket); release of an accepted socket whose set-up failed is by reference counting (not observable)", ref="DESIGN.md §4 C13"),
 "C18": dict(engine="E2", technique="explicit-state BFS over event histories on the real server under a virtual clock with time-translation merging; plus E1 schedule enumeration for the end of service()",
   text="All histories up to the stated depth over {connect, send-partial, send-complete, client-reads, client-stalls, app-finishes, clock += 1/cleanup/timeout/timeout+1} are executed on the real server, channels and poll loop (tasks run only by app-finishes) for small and default limits; in every state the socket map never exceeds connection_limit, nothing waits unaccepted below the limit, idle connections are closed within channel_timeout + cleanup_interval + one loop period, and a connection with a request in progress is never marked or closed. The window between popping the finished request and recording the activity is explored as an E1 scenario against a due maintenance pass.",
   note="ages are capped beyond all thresholds (translation invariance); loop run to quiescence after each event; one listening socket", ref="DESIGN.md §4 C18, appendix C"),
 "C19": dict(engine="E2", technique="exhaustive enumeration of pipelines x delivery modes + cut-graph BFS over all segmentations (sequential part) and deviation-bounded schedule enumeration (E1 part)",
   text="All pipelines of up to three requests over six message kinds are delivered in one read, by a waiting client (body withheld until the interim or a final response arrives) and byte by byte, and under all segmentations for pipelines of up to two: an expecting HTTP/1.1 request whose body is outstanding at its turn gets exactly one '100 Continue' after its head is complete and after every earlier final response, others get none (at most one if complete), every request is executed once with its own header fields. The worker-side interim response is explored under all interleavings within the bound with the client really waiting.",
   note="as C02 and C04", ref="DESIGN.md §4 C19"),
 "C14": dict(engine="E1", technique="stateless exhaustive schedule enumeration (pre-emption/deviation bounded) of the real dispatcher under a controlled scheduler",
   text="Every interleaving of submitters, workers, resize and shutdown of the real ThreadedTaskDispatcher within the stated deviation bound (pre-emption at every dispatcher source line and lock/condition operation) is executed and checked for exactly-once, FIFO hand-out, worker-count convergence and shutdown effects.",
   note="CPython line-atomicity; virtual threading primitives replace threading.Lock/Condition/Thread; bounds per scenario in evidence.parts", ref="DESIGN.md §4 C14, §2 E1"),
}
NOT_BUILT = {}
def main():
    props = [json.loads(l) for l in open(os.path.join(HERE, "properties.jsonl"))]
    checks, na = [], []
    for p in props:
        pid = p["id"]
        c = CHECKS.get(pid)
        if c is None:
            na.append({"property_id": pid, "reason": NOT_BUILT.get(pid, "check not built yet (work in progress; see DESIGN.md §4 for the planned bounded-exhaustive formulation)")})
            continue
        checks.append({
            "property_id": pid,
            "quick_cmd": f"./check {pid} --tier quick",
            "thorough_cmd": f"./check {pid} --tier thorough",
            "evidence_file": f"/verif/evidence/{pid}.json",
            "replay_cmd_template": f"./check {pid} --replay {{path}}",
            "engine": c["engine"],
            "level_claimed": {"category": "model_checking", "text": c["text"], "design_ref": c["ref"]},
            "level_note": c["note"],
            "technique": c["technique"],
        })
    m = {
        "version": 1,
        "setup_cmd": "cd /verif && /venv/bin/python -m compileall -q mc >/dev/null && echo ok",
        "hooks": {"guard": "WAITRESS_VERIF", "enable": "no source hooks: the checks substitute module attributes (select/os/time/threading) of waitress at start-up; WAITRESS_VERIF=1 is exported by ./check for the record", "baseline_off_cmd": BASE, "source_commits": [], "add_only": True},
        "engines": [
            {"name": "E1", "path": "mc/sched.py, mc/explore.py, mc/venv.py", "serves_properties": [k for k, v in CHECKS.items() if v["engine"] == "E1"], "kind_free_text": "stateless deviation-bounded exhaustive explorer of thread interleavings, environment answers and fault placements over the real implementation"},
            {"name": "E2", "path": "mc/seq.py", "serves_properties": [k for k, v in CHECKS.items() if v["engine"] == "E2"], "kind_free_text": "explicit-state breadth-first search over the real sequential transition functions with exact-state merging"},
            {"name": "E4", "path": "mc/autom.py", "serves_properties": [k for k, v in CHECKS.items() if v["engine"] == "E4"], "kind_free_text": "regex AST -> NFA -> DFA over byte classes, product search for shortest distinguishing strings"},
            {"name": "E5", "path": "mc/props/*.py", "serves_properties": [k for k, v in CHECKS.items() if v["engine"] == "E5"], "kind_free_text": "exhaustive enumeration of finite input/program/configuration products against independent reference models"},
        ],
        "checks": checks,
        "not_applicable": na,
        "notes": "All checks import waitress from /repo/src of the current working tree (VERIF_REPO overrides the root for mutation runs).",
    }
    json.dump(m, open(os.path.join(HERE, "MANIFEST.json"), "w"), indent=1)
    print(len(checks), "checks,", len(na), "not claimed")
main()
